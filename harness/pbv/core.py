"""Common machinery for the py-ballisticcalc TLA+ verification harness.

  * locating /repo (or an alternate tree via PYBC_REPO, used by the mutant self-tests)
  * running TLC (exhaustive / generator / trace-validation modes) and parsing its output
  * evidence files, known findings, replay files, exit codes

Exit codes of a check: 0 = property held on everything explored (known findings only
print KNOWN-FINDING lines), 1 = violation (a `VIOLATION property=.. replay=..` line is
printed), 2 = machinery failure (never reported as a violation).
"""
from __future__ import annotations

import atexit
import json
import os
import re
import shutil
import subprocess
import sys
import time
from dataclasses import dataclass, field
from pathlib import Path
from typing import Any, Dict, Iterable, List, Optional

VERIF = Path(__file__).resolve().parents[2]
SPEC_DIR = VERIF / "spec"
EVIDENCE_DIR = Path(os.environ.get("PBV_EVIDENCE_DIR") or (VERIF / "evidence"))   # redirected by the mutant self-tests
REPLAY_DIR = Path(os.environ.get("PBV_REPLAY_DIR") or (VERIF / "replays"))
REPO = Path(os.environ.get("PYBC_REPO", "/repo")).resolve()
TLA_CP = "/opt/veriftools/tla/tla2tools.jar:/opt/veriftools/tla/CommunityModules-deps.jar"

_scratch: Optional[Path] = None


class MachineryError(RuntimeError):
    """Something in the harness/TLC itself failed (exit code 2)."""


def scratch() -> Path:
    """Per-process scratch dir under /verif/.scratch (removed at exit)."""
    global _scratch
    if _scratch is None:
        base = VERIF / ".scratch"
        base.mkdir(exist_ok=True)
        _scratch = base / f"{os.getpid()}"
        if _scratch.exists():
            shutil.rmtree(_scratch, ignore_errors=True)
        _scratch.mkdir()
        if not os.environ.get("PBV_KEEP"):
            atexit.register(lambda: shutil.rmtree(_scratch, ignore_errors=True))
    return _scratch


# ---------------------------------------------------------------------------
# importing the implementation under test
# ---------------------------------------------------------------------------

def use_repo(hooks: bool = True) -> None:
    """Make `import py_ballisticcalc` resolve to REPO's *current working tree*."""
    if hooks:
        os.environ["PYBC_VERIF"] = "1"
    p = str(REPO)
    if p in sys.path:
        sys.path.remove(p)
    sys.path.insert(0, p)
    os.environ.setdefault("PYTHONHASHSEED", "0")
    import warnings
    warnings.filterwarnings("ignore")
    import py_ballisticcalc  # noqa: F401
    got = Path(py_ballisticcalc.__file__).resolve()
    if REPO not in got.parents:
        raise MachineryError(f"py_ballisticcalc imported from {got}, expected under {REPO}")
    import logging
    logging.getLogger('py_balcalc').setLevel(logging.ERROR)


def reset_world() -> None:
    """Process-global state of the library back to its documented defaults."""
    import py_ballisticcalc as pb
    pb.PreferredUnits.defaults()
    pb.reset_globals()


# ---------------------------------------------------------------------------
# TLC
# ---------------------------------------------------------------------------

@dataclass
class TLCResult:
    ok: bool
    generated: int = 0
    distinct: int = 0
    depth: int = 0
    printed: Dict[str, List[Any]] = field(default_factory=dict)
    violated: Optional[str] = None          # name of violated invariant/property
    error_text: str = ""
    coverage: Dict[str, int] = field(default_factory=dict)
    wall_s: float = 0.0
    log: str = ""
    cmd: str = ""

    def out(self, tag: str) -> List[Any]:
        return self.printed.get(tag, [])


_PRINT_RE = re.compile(r'^<<"([A-Za-z0-9_]+)", "(.*)">>$')


def _unescape_tla_string(s: str) -> str:
    # TLC prints strings with \" and \\ escapes (plus \n, \t); JSON unescape is compatible
    return json.loads('"' + s + '"')


def run_tlc(module: str, cfg_text: str, *, workers: int = 16, timeout: int = 900,
            env: Optional[Dict[str, str]] = None, simulate: Optional[str] = None,
            depth: Optional[int] = None, coverage: bool = False, deadlock: bool = False,
            seed: Optional[int] = None, extra: Iterable[str] = (), tags: Iterable[str] = (),
            name: Optional[str] = None, heap: str = "8g", dfs_queue: bool = False,
            defs: Optional[str] = None) -> TLCResult:
    """Run TLC on spec/<module>.tla with the given cfg text.

    `tags`: PrintT(<<"TAG", jsonString>>) lines with these tags are parsed (json) and returned.
    """
    sdir = scratch()
    name = name or module
    run_id = f"{name}_{int(time.time()*1000) % 100000000}"
    cfg = sdir / f"{run_id}.cfg"
    cfg.write_text(cfg_text)
    meta = sdir / f"{run_id}.meta"
    spec = SPEC_DIR / f"{module}.tla"
    if not spec.exists():
        raise MachineryError(f"spec {spec} missing")
    if defs is not None:
        # wrapper module (constants that a .cfg cannot express, e.g. negative numbers): X_MC EXTENDS X
        wrap = f"{module}_MC{int(time.time()*1000) % 100000000}"
        spec = sdir / f"{wrap}.tla"
        spec.write_text(f"---- MODULE {wrap} ----\nEXTENDS {module}\n{defs}\n====\n")
    jopts = ["-XX:+UseParallelGC", f"-Xmx{heap}", f"-Djava.io.tmpdir={sdir}", f"-DTLA-Library={SPEC_DIR}"]
    if dfs_queue:
        jopts.append("-Dtlc2.tool.queue.IStateQueue=StateDeque")
    cmd = ["java", *jopts, "-cp", TLA_CP, "tlc2.TLC", "-workers", str(workers), "-metadir", str(meta),
           "-noGenerateSpecTE", "-config", str(cfg)]
    if not deadlock:
        cmd += ["-deadlock"]  # -deadlock = do NOT check for deadlock
    if coverage:
        cmd += ["-coverage", "1"]
    if simulate is not None:
        cmd += ["-simulate", simulate]
    if depth is not None:
        cmd += ["-depth", str(depth)]
    if seed is not None:
        cmd += ["-seed", str(seed)]
    cmd += list(extra)
    cmd += [str(spec)]
    e = dict(os.environ)
    if env:
        e.update(env)
    t0 = time.time()
    logp = sdir / f"{run_id}.log"
    try:
        with open(logp, "w") as lf:
            p = subprocess.run(cmd, stdout=lf, stderr=subprocess.STDOUT, env=e, timeout=timeout,
                               cwd=str(SPEC_DIR))
        rc = p.returncode
    except subprocess.TimeoutExpired:
        if simulate is None:
            raise MachineryError(f"TLC timed out after {timeout}s on {module}")
        rc = 0  # simulation under an outer timeout: fine
    wall = time.time() - t0
    res = TLCResult(ok=False, wall_s=wall, log=str(logp), cmd=" ".join(cmd))
    tagset = set(tags)
    err_lines: List[str] = []
    in_err = False
    finished = False
    with open(logp, errors="replace") as lf:
        for line in lf:
            line = line.rstrip("\n")
            if tagset and line.startswith('<<"'):
                m = _PRINT_RE.match(line)
                if m and m.group(1) in tagset:
                    try:
                        res.printed.setdefault(m.group(1), []).append(json.loads(_unescape_tla_string(m.group(2))))
                    except Exception as ex:  # pragma: no cover
                        raise MachineryError(f"cannot parse TLC output line: {line[:200]} ({ex})")
                    continue
            m = re.match(r"^(\d+) states generated, (\d+) distinct states found", line)
            if m:
                res.generated, res.distinct = int(m.group(1)), int(m.group(2))
                continue
            m = re.match(r"^The depth of the complete state graph search is (\d+)", line)
            if m:
                res.depth = int(m.group(1))
                continue
            m = re.match(r"^Error: Invariant (\S+) is violated", line)
            if m:
                res.violated = m.group(1)
            m = re.match(r"^Error: Action property (\S+) is violated", line)
            if m:
                res.violated = m.group(1)
            m = re.match(r"^Error: Temporal property (\S+) was violated", line)
            if m:
                res.violated = m.group(1)
            if line.startswith("Error: Temporal properties were violated"):
                res.violated = res.violated or "TemporalProperty"
            if line.startswith("Error:"):
                in_err = True
            if in_err and len(err_lines) < 80:
                err_lines.append(line)
            if line.startswith("Finished in") or line.startswith("Model checking completed"):
                finished = True
            m = re.match(r"^<(\w+) line (\d+), col \d+ to line \d+, col \d+ of module (\w+)>: (\d+):(\d+)", line)
            if m:
                res.coverage[f"{m.group(3)}.{m.group(1)}"] = res.coverage.get(f"{m.group(3)}.{m.group(1)}", 0) + int(m.group(5))
    res.error_text = "\n".join(err_lines)
    if simulate is not None:
        res.ok = res.violated is None and not err_lines
        return res
    if res.violated is None and err_lines:
        raise MachineryError(f"TLC error on {module} (log {logp}):\n" + res.error_text[:3000])
    if not finished and res.violated is None:
        raise MachineryError(f"TLC did not finish on {module} (rc={rc}, log {logp})")
    res.ok = res.violated is None
    return res


# ---------------------------------------------------------------------------
# known findings
# ---------------------------------------------------------------------------

def load_findings() -> List[Dict[str, Any]]:
    p = VERIF / "known_findings.json"
    if not p.exists():
        return []
    data = json.loads(p.read_text())
    return [f for f in data.get("findings", [])]


def _matches(f: Dict[str, Any], prop: str, clause: str, key: Dict[str, Any]) -> bool:
    if f.get("status") != "open":
        return False  # 'fixed' entries suppress nothing
    if f.get("property") != prop or f.get("clause") != clause:
        return False
    for k, want in (f.get("match") or {}).items():
        have = key.get(k)
        if isinstance(want, list):
            if have not in want:
                return False
        elif have != want:
            return False
    return True


# ---------------------------------------------------------------------------
# evidence + verdict
# ---------------------------------------------------------------------------

class Check:
    """Collects what a check run covered, its violations, and writes evidence."""

    def __init__(self, prop: str, tier: str, seed: int, level: str = "model_checking"):
        self.prop, self.tier, self.seed, self.level = prop, tier, seed, level
        self.t0 = time.time()
        self.states = 0
        self.transitions = 0
        self.traces = 0
        self.evaluations = 0
        self.nontrivial: set = set()
        self.samples: List[Any] = []
        self.rule: List[str] = []
        self.assumptions: List[str] = []
        self.extra: Dict[str, Any] = {}
        self.tlc_runs: List[Dict[str, Any]] = []
        self.violations: List[Dict[str, Any]] = []
        self.known_hits: Dict[str, int] = {}
        self.exhaustive = True
        self.findings = load_findings()
        self.strata: Dict[str, int] = {}

    # -- TLC bookkeeping
    def tlc(self, res: TLCResult, what: str, *, expect_ok: bool = True) -> TLCResult:
        self.states += res.distinct
        self.transitions += res.generated
        self.tlc_runs.append({"what": what, "distinct_states": res.distinct, "states_generated": res.generated,
                              "depth": res.depth, "wall_s": round(res.wall_s, 2),
                              "violated": res.violated})
        if expect_ok and not res.ok:
            self.violation("Design." + (res.violated or "TLC"), {"spec": what},
                           {"tlc_error": res.error_text[:4000], "cmd": res.cmd})
        return res

    def sample(self, s: Any, limit: int = 6) -> None:
        if len(self.samples) < limit:
            self.samples.append(s)

    def stratum(self, name: str, n: int = 1) -> None:
        self.strata[name] = self.strata.get(name, 0) + n

    def count(self, n: int = 1, nontrivial_key: Any = None) -> None:
        self.evaluations += n
        if nontrivial_key is not None:
            self.nontrivial.add(nontrivial_key)

    def violation(self, clause: str, key: Dict[str, Any], detail: Dict[str, Any]) -> None:
        for f in self.findings:
            if _matches(f, self.prop, clause, key):
                fid = f.get("id", clause)
                if fid not in self.known_hits:
                    self.known_hits[fid] = 0
                self.known_hits[fid] += 1
                return
        self.violations.append({"clause": clause, "key": key, "detail": detail})

    def require_strata(self, names: Iterable[str]) -> None:
        missing = [n for n in names if not self.strata.get(n)]
        if missing and self.violations:
            return        # a changed tree can make strata unreachable; the violations found are the verdict
        if missing:
            raise MachineryError(f"{self.prop}: run is vacuous for strata {missing} (seed {self.seed})")

    # -- finish
    def finish(self) -> int:
        wall = time.time() - self.t0
        EVIDENCE_DIR.mkdir(parents=True, exist_ok=True)
        for f in self.findings:
            fid = f.get("id")
            if f.get("status") == "open" and f.get("property") == self.prop:
                n = self.known_hits.get(fid, 0)
                print(f"KNOWN-FINDING: property={self.prop} {fid}: {f.get('what')} (matched {n} case(s) this run)")
        replay_path = None
        if self.violations:
            d = REPLAY_DIR / self.prop
            d.mkdir(parents=True, exist_ok=True)
            replay_path = d / f"{self.tier}_{self.seed}.json"
            kept, per = [], {}
            for v in self.violations:
                g = (v["clause"], json.dumps(v["key"], default=str, sort_keys=True)[:200])
                per[g] = per.get(g, 0) + 1
                if per[g] <= 3 and len(kept) < 400:
                    kept.append(v)
            replay_path.write_text(json.dumps({"property": self.prop, "tier": self.tier, "seed": self.seed,
                                               "repo": str(REPO), "n_violations": len(self.violations),
                                               "how_to_replay": f"./check {self.prop} --replay {replay_path} (re-runs the "
                                               "deterministic check at this tier/seed; each violation lists its concrete inputs)",
                                               "violations": kept}, indent=1, default=str))
        cov: Dict[str, Any] = {
            "states": self.states, "transitions": self.transitions,
            "traces_validated_against_impl": self.traces,
            "evaluations": self.evaluations,
            "distinct_nontrivial": len(self.nontrivial),
            "rule": " | ".join(self.rule),
            "samples": self.samples if self.samples else [{"note": "no sample recorded"}],
            "exhaustive": bool(self.exhaustive),
            "tlc_runs": self.tlc_runs,
            "strata": self.strata,
            "known_finding_hits": self.known_hits,
        }
        cov.update(self.extra)
        ev = {"property_id": self.prop, "tier": self.tier, "seed": self.seed, "level": self.level,
              "coverage": cov, "assumptions": self.assumptions, "wall_s": round(wall, 2),
              "violations": len(self.violations)}
        # evidence/<id>.json is reserved for the listed properties: checks beyond them (EXTRAS) write next to it
        edir = EVIDENCE_DIR if self.prop.startswith("C") and self.prop[1:].isdigit() else EVIDENCE_DIR.parent / (EVIDENCE_DIR.name + "_beyond_listed")
        edir.mkdir(parents=True, exist_ok=True)
        (edir / f"{self.prop}.json").write_text(json.dumps(ev, indent=1, default=str) + "\n")
        if self.violations:
            seen: Dict[str, int] = {}
            keys: Dict[str, set] = {}
            for v in self.violations:
                seen[v["clause"]] = seen.get(v["clause"], 0) + 1
                ks = json.dumps(v['key'], default=str)[:300]
                kk = keys.setdefault(v["clause"], set())
                if ks not in kk and len(kk) < 12:
                    kk.add(ks)
                    print(f"  violated clause {v['clause']} key={ks}")
            print("  violation counts: " + json.dumps(seen))
            print(f"VIOLATION property={self.prop} replay={replay_path}")
            return 1
        print(f"OK property={self.prop} tier={self.tier} seed={self.seed} states={self.states} "
              f"evaluations={self.evaluations} traces={self.traces} wall={wall:.1f}s")
        return 0


def fhex(x: float) -> str:
    return float(x).hex()


# ---------------------------------------------------------------------------
# trace validation (code -> spec)
# ---------------------------------------------------------------------------

def validate_trace(chk: "Check", module: str, lines: List[Dict[str, Any]], what: str, *,
                   consts: str = "", timeout: int = 1800, dfs: bool = False) -> List[List[Any]]:
    """Validate a batch of projected trace lines against spec/<module>.tla (a total monitor).

    The trace spec consumes every line, accumulates <<id, clause>> pairs in `fails` and prints
    RESULT {consumed, fails} when done.  Returns the list of [id, clause] failures; raises
    MachineryError unless every line was consumed (a trace the monitor cannot read is a machinery
    failure, never a pass).
    """
    if not lines:
        raise MachineryError(f"{module}: empty trace batch")
    sdir = scratch()
    tf = sdir / f"{module}_{len(lines)}_{int(time.time()*1000) % 10000000}.ndjson"
    with open(tf, "w") as f:
        for ln in lines:
            f.write(json.dumps(ln, separators=(",", ":")) + "\n")
    cfg = (("CONSTANTS\n" + consts) if consts else "") + "SPECIFICATION TraceSpec\nINVARIANT Report\n"
    res = run_tlc(module, cfg, workers=1, env={"TRACE_FILE": str(tf)}, tags=["RESULT"], timeout=timeout,
                  name=f"{module}_trace", dfs_queue=dfs)
    chk.tlc(res, f"{module}: {what} ({len(lines)} trace lines)")
    out = res.out("RESULT")
    if not out:
        raise MachineryError(f"{module}: trace monitor produced no RESULT (log {res.log})")
    best = max(out, key=lambda o: o["consumed"])
    if best["consumed"] != len(lines):
        raise MachineryError(f"{module}: monitor consumed {best['consumed']} of {len(lines)} lines")
    if not os.environ.get("PBV_KEEP"):
        try:
            tf.unlink()
        except OSError:
            pass
    return [list(x) for x in best["fails"]]


def consts(d: Dict[str, Any]) -> "tuple[str, str]":
    """cfg CONSTANTS section + wrapper-module definitions for a dict of TLA+ constant expressions.

    Every constant is defined in the wrapper module (so negative numbers, empty tuples etc. are fine)
    and substituted in the cfg with `<-`."""
    cfg = "CONSTANTS\n" + "".join(f" {k} <- {k}_c\n" for k in d)
    defs = "\n".join(f"{k}_c == {tla(v)}" for k, v in d.items())
    return cfg, defs


def tla(v: Any) -> str:
    """Python value -> TLA+ expression (str values are taken as TLA+ source unless quoted by tla_str)."""
    if isinstance(v, bool):
        return "TRUE" if v else "FALSE"
    if isinstance(v, (int,)):
        return str(v)
    if isinstance(v, str):
        return v
    if isinstance(v, (list, tuple)):
        return "<<" + ", ".join(tla(x) for x in v) + ">>"
    if isinstance(v, (set, frozenset)):
        return "{" + ", ".join(tla(x) for x in sorted(v, key=str)) + "}"
    raise MachineryError(f"cannot render {v!r} as TLA+")


def q(s: str) -> str:
    return '"' + s + '"'


def apalache(chk, module: str, obligations, what: str, timeout: int = 300):
    """Run Apalache obligations on spec/<module>.tla: each obligation is (extra args, expect) with expect "ok" (no error up to
    the length) or "violation" (a counterexample must be found: anti-vacuity).  Under a timeout; a stalled solver is recorded,
    not treated as a result.  A missing expected counterexample or an unexpected one is a DESIGN violation of the check."""
    import shutil as _sh
    import subprocess as _sp
    if _sh.which("apalache-mc") is None:
        chk.tlc_runs.append({"what": what, "result": "apalache-mc not available"})
        return
    sdir = scratch()
    out_dir = sdir / f"apa_{module}"
    _sh.copy(str(SPEC_DIR / f"{module}.tla"), str(sdir / f"{module}.tla"))
    results = []
    for args, expect in obligations:
        try:
            p = _sp.run(["apalache-mc", "check", *args, f"--out-dir={out_dir}", str(sdir / f"{module}.tla")], capture_output=True,
                        text=True, timeout=timeout, cwd=str(sdir))
            out = p.stdout + p.stderr
            ok = "EXITCODE: OK" in out
            viol = "invariant 0 violated" in out or "Found 1 error" in out
            res = "ok" if ok else ("violation" if viol else "error")
            results.append({"args": list(args), "expected": expect, "result": res})
            if res == "error":
                raise MachineryError(f"apalache {module} {args}: {out[-600:]}")
            if res != expect:
                if expect == "violation":
                    raise MachineryError(f"apalache {module} {args}: the deviation was expected to be refuted (vacuous)")
                chk.violation(f"Design.{module}", {"args": " ".join(args)}, {"apalache": out[-2000:]})
        except _sp.TimeoutExpired:
            results.append({"args": list(args), "expected": expect, "result": "timeout"})
    chk.tlc_runs.append({"what": what, "obligations": results})
    _sh.rmtree(out_dir, ignore_errors=True)
