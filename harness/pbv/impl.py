"""Helpers that build real py_ballisticcalc objects for spec->code replays."""
from __future__ import annotations
from typing import Any, List, Optional


def pb():
    import py_ballisticcalc
    return py_ballisticcalc


def simple_shot(**kw):
    m = pb()
    dm = m.DragModel(0.3, m.TableG7)
    return m.Shot(weapon=m.Weapon(m.Unit.Inch(2)), ammo=m.Ammo(dm, m.Unit.FPS(2700)), **kw)


def make_row(time: float = 0.0, distance=None, height=None, target_drop=None, velocity=None, mach: float = 1.0,
             flag: int = 8, drop_adj=None, windage_adj=None, look_distance=None):
    """A TrajectoryData row with the given (exact) fields; the rest neutral."""
    m = pb()
    U = m.Unit
    z = U.Foot(0)
    return m.TrajectoryData(
        time=time, distance=distance if distance is not None else z,
        velocity=velocity if velocity is not None else U.FPS(1000), mach=mach,
        height=height if height is not None else z,
        target_drop=target_drop if target_drop is not None else z,
        drop_adj=drop_adj if drop_adj is not None else U.Radian(0), windage=z,
        windage_adj=windage_adj if windage_adj is not None else U.Radian(0),
        look_distance=look_distance if look_distance is not None else (distance if distance is not None else z),
        angle=U.Radian(0), density_factor=0.0, drag=0.0, energy=U.FootPound(0), ogw=U.Pound(0), flag=flag)


def outcome(fn, *a, **k):
    """('ok', value) or ('exc', ExceptionTypeName, exception)"""
    try:
        return ("ok", fn(*a, **k))
    except Exception as e:  # noqa
        return ("exc", type(e).__name__, e)


def deep_fp(obj, _depth=0, _seen=None, units=False):
    """Deep, deterministic value fingerprint of a library object graph: quantities -> hex of the raw magnitude
    (plus display unit when units=True), floats -> hex, containers and objects recursively (attribute names sorted)."""
    if _seen is None:
        _seen = set()
    if obj is None or isinstance(obj, (bool, str)):
        return repr(obj)
    if isinstance(obj, float):
        return obj.hex()
    if isinstance(obj, int):
        return str(int(obj))
    if hasattr(obj, "raw_value") and hasattr(obj, "units"):
        rv = obj.raw_value
        s = float(rv).hex() if isinstance(rv, (int, float)) else repr(rv)
        return ("Q", s, int(obj.units)) if units else ("Q", s)
    if _depth > 12:
        return "<deep>"
    if isinstance(obj, dict):
        return ("dict", tuple((repr(k), deep_fp(v, _depth + 1, _seen, units)) for k, v in sorted(obj.items(), key=lambda kv: repr(kv[0]))))
    if isinstance(obj, (list, tuple)):
        return (type(obj).__name__ if not hasattr(obj, "_fields") else "nt",
                tuple(deep_fp(v, _depth + 1, _seen, units) for v in obj))
    if id(obj) in _seen:
        return "<cycle>"
    d = getattr(obj, "__dict__", None)
    if d is None:
        return repr(type(obj))
    _seen.add(id(obj))
    try:
        return (type(obj).__name__, tuple((k, deep_fp(v, _depth + 1, _seen, units)) for k, v in sorted(d.items())
                                          if not k.startswith("__") and not callable(v)))
    finally:
        _seen.discard(id(obj))
