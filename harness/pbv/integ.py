"""Recording of hook traces (H1/H2) and the projection pi onto the alphabet of Trace_Integrator.

pi is a deterministic function of logged values: every threshold predicate is evaluated three-valued
(below / within a few ulps / above) and handed to the spec as an interval [lo, hi]; the spec's controller
operators then decide which reactions are admissible.  Nothing here decides a property.
"""
from __future__ import annotations

import math
import signal
from typing import Any, Dict, List, Optional, Tuple

REL = 1e-10          # relative band for threshold predicates (float rounding of accumulated sums)
FLAG = {"U": 1, "D": 2, "M": 4, "R": 8}
REASON = {"Minimum velocity reached": "Vel", "Maximum drop reached": "Drop", "Minimum altitude reached": "Alt"}


def tcmod():
    import py_ballisticcalc.trajectory_calc._trajectory_calc as tc
    return tc


class Recorder:
    """Hook sink: groups events into calls (one per _integrate / zero_angle invocation)."""

    def __init__(self, keep_integrate: bool = True, yield_fn=None):
        self.calls: List[Dict[str, Any]] = []      # finished _integrate calls
        self.zcalls: List[Dict[str, Any]] = []     # finished zero_angle calls
        self._cur: Dict[int, Dict[str, Any]] = {}
        self._zcur: Dict[int, Dict[str, Any]] = {}
        self.keep_integrate = keep_integrate
        self.yield_fn = yield_fn

    def __call__(self, ev: str, calc, data: Dict[str, Any]) -> None:
        cid = id(calc)
        if ev == "begin":
            self._cur[cid] = {"calc": calc, "begin": data, "iters": [], "raise": None, "end": None,
                              "cfg": calc._config, "consts": {
                                  "calc_step": calc.calc_step, "look": calc.look_angle, "alt0": calc.alt0,
                                  "mv": calc.muzzle_velocity, "elev": calc.barrel_elevation, "azim": calc.barrel_azimuth,
                                  "cant_cos": calc.cant_cosine, "cant_sin": calc.cant_sine, "sight_h": calc.sight_height}}
        elif ev == "iter":
            c = self._cur.get(cid)
            if c is not None:
                c["iters"].append(data)
        elif ev == "raise":
            c = self._cur.pop(cid, None)
            if c is not None:
                c["raise"] = data
                self._finish(c)
        elif ev == "end":
            c = self._cur.pop(cid, None)
            if c is not None:
                c["end"] = data
                self._finish(c)
        elif ev == "zbegin":
            self._zcur[cid] = {"begin": data, "iters": [], "end": None, "integrate_calls": [], "cfg": calc._config,
                               "look": calc.look_angle}
        elif ev == "ziter":
            z = self._zcur.get(cid)
            if z is not None:
                z["iters"].append(data)
        elif ev == "zend":
            z = self._zcur.pop(cid, None)
            if z is not None:
                z["end"] = data
                self.zcalls.append(z)
        if self.yield_fn is not None:
            self.yield_fn(ev, calc)

    def _finish(self, c):
        zc = self._zcur.get(id(c["calc"]))
        if zc is not None:
            # an _integrate call made by zero_angle: keep only a summary (last pre/post states) for C02
            its = c["iters"]
            zc["integrate_calls"].append({"n": len(its), "last": its[-1] if its else None,
                                          "prev": its[-2] if len(its) > 1 else None, "raised": c["raise"] is not None})
            return
        if self.keep_integrate:
            self.calls.append(c)

    def install(self):
        if not tcmod()._verif_install(self):
            raise RuntimeError("hook sink refused: PYBC_VERIF=1 not set")
        return self

    def remove(self):
        tcmod()._verif_install(None)


class Watchdog:
    """wall-clock limit for one library call (C04.Terminates); raises TimeoutError"""

    def __init__(self, seconds: int):
        self.seconds = seconds

    def _handler(self, *_):
        raise TimeoutError("watchdog")

    def __enter__(self):
        self.old = signal.signal(signal.SIGALRM, self._handler)
        signal.alarm(self.seconds)

    def __exit__(self, *a):
        signal.alarm(0)
        signal.signal(signal.SIGALRM, self.old)
        return False


def band(*vals: float) -> float:
    return REL * max(1.0, *(abs(v) for v in vals))


def count_le(thresholds_sorted: List[float], x: float, tol: float) -> Tuple[int, int]:
    # (a threshold EXACTLY equal to x is decided, not ambiguous: the code compares the very same two floats - the muzzle at
    #  x = 0.0 against a segment that ends at distance 0 is the case that matters)
    lo = sum(1 for b in thresholds_sorted if b <= x - tol or b == x)
    hi = sum(1 for b in thresholds_sorted if b <= x + tol)
    return lo, hi


def multiples_le(x: float, step: float) -> Tuple[int, int]:
    """number of k >= 0 with k*step <= x, as an interval.

    The comparison k*step <= x is made EXACTLY (rational arithmetic on the float values), so a step that divides
    the range exactly (100 yd in 1000 yd) is decided; the interval opens only for a near miss (0 < |k*step - x|
    within the band), where the code's accumulated sum of steps may fall on either side."""
    if step <= 0:
        return 0, 0
    if x < 0:
        return (0, 0) if x < -band(x) else (0, 1)
    from fractions import Fraction
    fx, fs = Fraction(x), Fraction(step)
    n = int(fx // fs)                 # exact floor
    exact = n + 1                      # multiples 0..n
    lo = hi = exact
    tol = Fraction(REL) * max(1, fx)
    if 0 < fx - n * fs <= tol:         # x a hair above the multiple n: the code's sum may still be above x
        lo = exact - 1
    if 0 < (n + 1) * fs - fx <= tol:   # x a hair below the multiple n+1: the code's sum may already be <= x
        hi = exact + 1
    return lo, hi


def limits_violated(v: float, y: float, alt0: float, cfg, tolerant: bool) -> Tuple[List[str], List[str]]:
    """(definitely violated, possibly violated) limit names for ground speed v and height y"""
    lo, hi = [], []
    for name, val, lim in (("Vel", v, cfg.cMinimumVelocity), ("Drop", y, cfg.cMaximumDrop),
                           ("Alt", alt0 + y, cfg.cMinimumAltitude)):
        tol = band(val, lim) if tolerant else 0.0
        if val < lim - tol:
            lo.append(name)
        if val < lim + tol:
            hi.append(name)
    return lo, hi


def wind_segments(shot) -> List[Tuple[float, Tuple[float, float, float]]]:
    """(until_ft, expected vector) of the winds AS GIVEN, sorted by until-distance by the projection itself.
    Vector convention (documented): direction_from 0 = tail wind (+x), 90 deg = from the left (+z)."""
    import py_ballisticcalc as m
    given = list(shot._winds)
    segs = []
    for w in given:
        sp = w.velocity >> m.Velocity.FPS
        d = w.direction_from >> m.Angular.Radian
        segs.append((w.until_distance >> m.Distance.Foot, (sp * math.cos(d), 0.0, sp * math.sin(d))))
    segs.sort(key=lambda s: s[0])
    return segs


def project_call(c: Dict[str, Any], tid: int, api: Optional[Dict[str, Any]] = None,
                 cfg_expected=None) -> Tuple[List[Dict[str, Any]], Dict[str, Any]]:
    """One recorded _integrate call -> trace lines for Trace_Integrator (+ summary for strata/replay).

    cfg_expected: the Config the *spec* says this calculator has (C18); defaults to the calculator's own.
    """
    api = api or {}
    b = c["begin"]
    k0 = c["consts"]
    cfg = cfg_expected or c["cfg"]
    shot = b["shot"]
    maxr, step, tstep, min_step = b["maximum_range"], b["record_step"], b["time_step"], b["min_step"]
    filt = int(b["filter_flags"])
    extra = bool(filt & (FLAG["U"] | FLAG["D"] | FLAG["M"]))
    rec, timed = step > 0, tstep > 0
    look = k0["look"]
    tanl, cosl = math.tan(look), math.cos(look)
    max_step = cfg.max_calc_step_size_feet
    segs = wind_segments(shot)
    bounds = [s[0] for s in segs]
    vecs = [s[1] for s in segs] + [(0.0, 0.0, 0.0)]
    Klo, Khi = multiples_le(maxr, step)
    if api.get("default_step", False) and rec and maxr > 0:
        Klo = Khi = 11      # no step given: "one tenth of the range (11 rows)" - the statement decides, whatever ten float steps sum to
    iters = c["iters"]
    all_rows = [r for it in iters for r in it["rows"]]
    term_row = c["raise"]["row"] if c["raise"] else None
    end_rows = c["end"]["rows"] if c["end"] else None
    times_sorted = sorted({r.time for r in all_rows} | ({term_row.time} if term_row else set()))
    trank = {t: i for i, t in enumerate(times_sorted)}
    # ---- Begin
    y0 = b["range_vector"].y
    first_row = all_rows[0] if all_rows else None
    import py_ballisticcalc as m
    muzzle_ok = True
    if rec and filt:
        muzzle_ok = False
        if first_row is not None and iters and iters[0]["rows"] and iters[0]["rows"][0] is first_row:
            fr = first_row
            mv_expected = shot.ammo.get_velocity_for_temp(shot.atmo.powder_temp) >> m.Velocity.FPS
            sh = shot.weapon.sight_height >> m.Distance.Foot
            cant = shot.cant_angle >> m.Angular.Radian
            muzzle_ok = (fr.time == 0.0 and (fr.distance >> m.Distance.Foot) == 0.0
                         and abs((fr.velocity >> m.Velocity.FPS) - mv_expected) <= 1e-9 * max(1.0, mv_expected)
                         and abs((fr.height >> m.Distance.Foot) - (-math.cos(cant) * sh)) <= 1e-9 * max(1.0, abs(sh))
                         and abs((fr.windage >> m.Distance.Foot) - (-math.sin(cant) * sh)) <= 1e-9 * max(1.0, abs(sh)))
    # API boundary: the range / step the caller asked for (feet) against what reached the solver
    req_kept = True
    if api.get("range_ft_asked") is not None:
        req_kept = abs(maxr - api["range_ft_asked"]) <= 1e-9 * max(1.0, abs(api["range_ft_asked"]))
        if api.get("step_ft_asked") is not None and rec:
            req_kept = req_kept and abs(step - api["step_ft_asked"]) <= 1e-9 * max(1.0, abs(api["step_ft_asked"]))
        if api.get("time_step_asked") is not None:
            req_kept = req_kept and float(tstep) == float(api["time_step_asked"])
    extra_kept = True if api.get("extra_asked") is None else (bool(extra) == bool(api["extra_asked"]))
    lines: List[Dict[str, Any]] = [{
        "tid": tid, "ev": "Begin", "rec": rec, "timed": timed, "extra": extra, "Klo": Klo, "Khi": Khi, "requestKept": bool(req_kept),
        "extraKept": bool(extra_kept),
        "stepGEmax": bool(step >= max_step * (1 - 1e-12)),
        # the first multiple beyond the range may be recorded only if it lies within one integration step of it
        "beyondOK": bool(rec and Klo * step <= maxr + max_step + band(maxr)), "muzzleSide": 1 if y0 >= 0 else -1,
        "barrelAbove": not (k0["elev"] < look), "muzzleRowOK": bool(muzzle_ok),
        "defaultStep": bool(api.get("default_step", False))}]
    summ = {"n_iter": len(iters), "n_rows": len(all_rows), "flags_seen": set(), "max_adv_over_step": 0.0,
            "seg_switches": 0, "lines": 0, "K": [Klo, Khi]}
    # ---- time reach (two pointer), only when a time step is in force
    pre_t = [it["pre_t"] for it in iters]
    reach_lo = reach_hi = None
    if timed:
        reach_lo, reach_hi = [], []
        jl = jh = -1
        for i, t in enumerate(pre_t):
            tol = band(t, tstep)
            while jl + 1 <= i and t > pre_t[jl + 1] + tstep + tol:
                jl += 1
            while jh + 1 <= i and t > pre_t[jh + 1] + tstep - tol:
                jh += 1
            reach_lo.append(jl + 1)      # iterations are 1-based in the spec; -1 -> 0 means none
            reach_hi.append(jh + 1)
    prev_line = None
    prev_it = None
    last_row_t = 0.0
    max_dt = 0.0
    last_seg = None
    for idx, it in enumerate(iters):
        x, y = it["pre_r"].x, it["pre_r"].y
        px, py = it["post_r"].x, it["post_r"].y
        tolx = band(x, maxr)
        passLo, passHi = multiples_le(x, step) if rec else (0, 0)
        segLo, segHi = count_le(bounds, x, band(x))
        w = it["wind"]
        wind_is = [s for s, v in enumerate(vecs)
                   if all(abs(a - b_) <= 1e-9 * (1.0 + abs(b_)) for a, b_ in zip((w.x, w.y, w.z), v))]
        d = y - x * tanl
        tol_d = band(y, x * tanl)
        side = 1 if d > tol_d else (-1 if d < -tol_d else 0)
        vmag = it["pre_v"].magnitude()
        ratio = vmag / it["mach"]
        sup = 1 if ratio > 1 + 1e-12 else (0 if ratio < 1 - 1e-12 else 2)
        air = ((it["post_v"].x - w.x) ** 2 + (it["post_v"].y - w.y) ** 2 + (it["post_v"].z - w.z) ** 2) ** 0.5 * it["dt"]
        adv = px - x
        max_dt = max(max_dt, it["dt"])
        post_v = it["post_v"].magnitude()
        violLo, violHi = limits_violated(post_v, py, k0["alt0"], cfg, True)
        flags = int(it["flag"])
        fl = [f for f, bit in FLAG.items() if flags & bit]
        rows = it["rows"]
        line: Dict[str, Any] = {
            "tid": tid, "ev": "Iter", "i": idx + 1, "rep": 1, "passLo": passLo, "passHi": passHi,
            "reachLo": reach_lo[idx] if timed else -1, "reachHi": reach_hi[idx] if timed else -1,
            "xPos": bool(x > 0), "side": side, "sup": sup, "segLo": segLo, "segHi": segHi, "windIs": wind_is,
            "airOK": bool(air <= max_step * (1 + 1e-9)), "advLeStep": bool((not rec) or adv <= step * (1 + 1e-12)),
            "fwd": bool(adv > 0), "contMay": bool(x <= maxr + min_step + tolx), "fl": fl, "k": -1, "nrows": len(rows),
            "rowFlagOK": True, "tr": -1, "interpOK": True, "nearLine": True, "nearSonic": True, "gapOK": True,
            "rowViolLo": [], "violLo": violLo, "violHi": violHi}
        if rec and step > 0:
            summ["max_adv_over_step"] = max(summ["max_adv_over_step"], adv / step)
        if rows:
            r = rows[0]
            dft = r.distance >> m.Distance.Foot
            if rec and "R" in fl:
                kk = round(dft / step)
                if abs(dft - kk * step) <= 1e-6 * max(1.0, abs(dft)):
                    line["k"] = int(kk)
                    line["interpOK"] = bool(abs(dft - kk * step) <= 1e-11 * max(1.0, abs(dft)))
            line["rowFlagOK"] = bool(int(r.flag) == flags)
            line["tr"] = trank[r.time]
            if flags & 3 and prev_it is not None:
                dp_prev = (prev_it["pre_r"].y - prev_it["pre_r"].x * tanl) * cosl
                dp_cur = d * cosl
                lim = abs(dp_cur - dp_prev) * (1 + 1e-9) + 1e-12
                line["nearLine"] = bool(abs(r.target_drop >> m.Distance.Foot) <= lim)
            if flags & 4 and prev_it is not None:
                r_prev = prev_it["pre_v"].magnitude() / prev_it["mach"]
                lim = abs(r_prev - ratio) * (1 + 1e-9) + 1e-12
                line["nearSonic"] = bool(abs(1.0 - r.mach) <= lim)
            if timed:
                line["gapOK"] = bool(r.time - last_row_t <= tstep + 2 * max_dt + band(r.time))
            last_row_t = r.time
            if idx > 0:
                lo, _ = limits_violated(r.velocity >> m.Velocity.FPS, r.height >> m.Distance.Foot, k0["alt0"], cfg, True)
                line["rowViolLo"] = lo
        for f in fl:
            summ["flags_seen"].add(f)
        if last_seg is not None and (segLo, segHi) != last_seg:
            summ["seg_switches"] += 1
        last_seg = (segLo, segHi)
        # run-length encoding of identical row-less iterations
        if (prev_line is not None and not timed and not rows and not fl and prev_line["nrows"] == 0 and not prev_line["fl"]
                and all(prev_line[k_] == line[k_] for k_ in line if k_ not in ("i", "rep"))):
            prev_line["rep"] += 1
        else:
            lines.append(line)
            prev_line = line
        prev_it = it
    n_iter = len(iters)
    if c["raise"] is not None:
        rr = c["raise"]
        row = rr["row"]
        _, rvh = limits_violated(row.velocity >> m.Velocity.FPS, row.height >> m.Distance.Foot, k0["alt0"], cfg, True)
        lines.append({"tid": tid, "ev": "Raise", "reason": REASON.get(rr["reason"], "other"), "rowViolHi": rvh,
                      "lastDistOK": bool(api.get("last_dist_ok", True)), "rowIsLast": bool(api.get("row_is_last", True))})
        n_rows = rr["n_rows"]
        lines.append({"tid": tid, "ev": "End", "outcome": "RangeErr", "nRows": n_rows, "tail": False, "tailFl": [],
                      "reachedMay": True, "nIter": n_iter})
        summ["outcome"] = "RangeErr:" + REASON.get(rr["reason"], "other")
    else:
        e = c["end"]
        n_rows = len(e["rows"])
        tail = n_rows - len(all_rows) == 1
        tail_fl = sorted(k for k, bit in FLAG.items() if tail and int(e["rows"][-1].flag) & bit)
        lines.append({"tid": tid, "ev": "End", "outcome": "Done", "nRows": n_rows, "tail": bool(tail), "tailFl": tail_fl,
                      "reachedMay": bool(e["post_r"].x > maxr - band(maxr)), "nIter": n_iter})
        summ["outcome"] = "Done"
    summ["lines"] = len(lines)
    summ["flags_seen"] = sorted(summ["flags_seen"])
    return lines, summ


def pair_line(tid: int, clause: str, ok: bool, **info) -> Dict[str, Any]:
    d = {"tid": tid, "ev": "Pair", "clause": clause, "ok": bool(ok)}
    return d
