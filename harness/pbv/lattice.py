"""Lattice world (spec/Lattice.tla): exact spec -> code replay of complete Calculator.fire results.

Every scenario TLC enumerates (vacuum, V = 4 fps, head/tail winds with dyadic air speeds, optional gravity -1/16,
limits on the lattice) comes with the complete expected result; the real fire must reproduce it EXACTLY: row count,
every row's distance, time and flags, the RangeError reason, the terminal / tail row, the iteration count."""
from __future__ import annotations

import json
import math
from typing import Any, Dict, List

from pbv import core, impl, integ

FL = {"R": 8, "U": 1, "D": 2, "M": 4}
REASON = {"Vel": "Minimum velocity reached", "Drop": "Maximum drop reached", "Alt": "Minimum altitude reached"}

QUICK = dict(WindMenus="{ <<>>, <<<<6, 16>>>>, <<<<6, 16>>, <<4, 32>>>>, <<<<-8, 8>>, <<7, 1000>>>>, <<<<7, 100000>>>>, <<<<4, 20>>, <<4, 20>>, <<0, 48>>>> }",
             Ranges="{24, 26, 64}", Steps="{8, 12, 2}", TimeSteps="{0, 16}", Gravs="{0, 1}", Sights="{16, -16}",
             DropLims="{-64, -64000}", AltLims="{-48, -64000}", VelLims="{0, 5}", MaxIt=200)
THOROUGH = dict(WindMenus="{ <<>>, <<<<6, 16>>>>, <<<<-8, 20>>>>, <<<<6, 16>>, <<4, 32>>>>, <<<<-8, 8>>, <<7, 1000>>>>, <<<<7, 100000>>>>, <<<<4, 20>>, <<4, 20>>, <<0, 48>>>>, "
                          "<<<<0, 0>>, <<-8, 12>>, <<-8, 12>>, <<6, 60>>>>, <<<<9, 100000>>>>, <<<<7, 24>>, <<9, 100000>>>> }",
                Ranges="{8, 24, 26, 27, 64, 100}", Steps="{8, 12, 2, 32, 100}", TimeSteps="{0, 16, 40}", Gravs="{0, 1}", Sights="{16, -16, 0, 40}",
                DropLims="{-64, -20, -64000}", AltLims="{-48, -64000}", VelLims="{0, 5}", MaxIt=300)

PROPS = ("SPECIFICATION Spec\nINVARIANT L_C03_OneRowPerMultiple\nINVARIANT L_C03_TimesIncrease\nINVARIANT L_C04_Verdict\n"
         "INVARIANT L_TwoRows\nINVARIANT L_RowHeights\nPROPERTY L_C04_Terminates\n")

_cases: Dict[str, List[Dict[str, Any]]] = {}


def cases(chk: core.Check, thorough: bool) -> List[Dict[str, Any]]:
    key = "thorough" if thorough else "quick"
    if key not in _cases:
        cfg, defs = core.consts(THOROUGH if thorough else QUICK)
        chk.tlc(core.run_tlc("Lattice", cfg + PROPS, defs=defs, coverage=True), f"Lattice design ({key})")
        gen = core.run_tlc("Gen_Lattice", cfg + "SPECIFICATION Spec\nINVARIANT Emit\n", defs=defs, workers=1, tags=["CASE"], timeout=3000)
        chk.tlc(gen, f"Gen_Lattice ({key})")
        _cases[key] = gen.out("CASE")
        _model_pairs(_cases[key])
    return _cases[key]


def _model_pairs(cs: List[Dict[str, Any]]) -> None:
    """C11 on the model, across behaviours (a two-run property TLC cannot state as an invariant of one behaviour): for every
    pair of scenarios differing only in the extra-data flag, the plain rows are rows of the extra-data result (same distance,
    time, height, vertical velocity) and the added rows carry an event flag.  The model failing this is a machinery error."""
    by = {}
    for c in cs:
        k = json.dumps({a: b for a, b in c["sc"].items() if a != "extra"}, sort_keys=True)
        by.setdefault(k, {})[bool(c["sc"]["extra"])] = c
    n = 0
    for k, d in by.items():
        if len(d) != 2 or d[False]["status"] != d[True]["status"]:
            continue
        n += 1
        core_of = lambda r: (r["x"], r["t"], r["y"], r["vy"], r["term"])
        plain, extra = [core_of(r) for r in d[False]["rows"]], [core_of(r) for r in d[True]["rows"]]
        if any(r not in extra for r in plain):
            raise core.MachineryError(f"Lattice model: plain rows not a subset of the extra-data rows for {k}")
        for r in d[True]["rows"]:
            if core_of(r) not in plain and not (set(r["fl"]) & {"U", "D", "M"}) and not r["term"]:
                raise core.MachineryError(f"Lattice model: extra-data adds an unflagged row for {k}")
    if n == 0:
        raise core.MachineryError("Lattice model: no plain / extra-data scenario pairs")


def run_case(c: Dict[str, Any], keep_call: bool = False) -> Dict[str, Any]:
    """fire the scenario for real; returns observed rows etc."""
    m = impl.pb()
    U = m.Unit
    sc = c["sc"]
    core.reset_world()
    cfg = {"max_calc_step_size_feet": 1.0, "cGravityConstant": -1.0 / 16.0 if sc["grav"] else 0.0,
           "cMinimumVelocity": float(sc["vel"]), "cMaximumDrop": sc["drop"] / 64.0, "cMinimumAltitude": sc["alt"] / 64.0}
    if (sc["range"] + sc["step"] + sc["sight"]) % 3 == 0:
        # whole-numbered settings as Python ints for a third of the scenarios
        cfg = {k: (int(v) if float(v).is_integer() else v) for k, v in cfg.items()}
    calc = m.Calculator(_config=cfg)
    winds = [m.Wind(U.FPS(abs(w2) / 2.0), U.Degree(0.0 if w2 >= 0 else 180.0), U.Foot(e4 / 4.0)) for w2, e4 in sc["winds"]]
    shot = m.Shot(weapon=m.Weapon(U.Foot(sc["sight"] / 64.0), U.Inch(0)), ammo=m.Ammo(m.DragModel(0.5, m.TableG1), U.FPS(4.0)),
                  atmo=m.Vacuum(U.Foot(0), U.Fahrenheit(59)), winds=list(reversed(winds)) or None)
    rec = integ.Recorder().install()
    out: Dict[str, Any] = {}
    try:
        with integ.Watchdog(30):
            hr = calc.fire(shot, U.Foot(sc["range"] / 4.0), U.Foot(sc["step"] / 4.0), extra_data=bool(sc["extra"]),
                           time_step=sc["tstep"] / 16.0)
        out["status"], out["rows"], out["reason"] = "Done", hr.trajectory, "none"
    except m.RangeError as e:
        out["status"], out["rows"], out["reason"] = "RangeErr", e.incomplete_trajectory, e.reason
    except TimeoutError:
        out["status"], out["rows"], out["reason"] = "timeout", [], "none"
    finally:
        rec.remove()
    call = rec.calls[-1] if rec.calls else None
    out["its"] = len(call["iters"]) if call else -1
    if keep_call:
        out["call"] = call
    # lattice preconditions (exactness of the inputs after the unit system): else the scenario cannot be compared exactly
    if call:
        # (on a tree that does not deliver them exactly - a unit factor changed, say - the scenario cannot be judged: skipped)
        if call["consts"]["mv"] != 4.0 or any(it["wind"].x * 2 != round(it["wind"].x * 2) for it in call["iters"][:3]):
            out["status"] = "precondition-not-met"
    out["obs_rows"] = [{"x": (r.distance >> U.Foot) * 4.0, "t": r.time * 16.0, "fl": sorted(k for k, b in FL.items() if int(r.flag) & b),
                        "y": (r.height >> U.Foot) * 512.0, "tdrop_ft": r.target_drop >> U.Foot, "look_ft": r.look_distance >> U.Foot,
                        "wind_ft": r.windage >> U.Foot, "v_fps": r.velocity >> U.FPS, "angle": r.angle >> U.Radian,
                        "dadj": r.drop_adj >> U.Radian}
                       for r in out["rows"]]
    return out


def compare(chk: core.Check, prop: str, c: Dict[str, Any], o: Dict[str, Any]) -> None:
    """report the differences that belong to property `prop`"""
    sc = c["sc"]
    exp_rows = [{"x": float(r["x"]), "t": float(r["t"]), "fl": sorted(r["fl"]), "term": r["term"], "y": float(r["y"]), "vy": float(r["vy"])}
                for r in c["rows"]]
    key = {"source": "lattice", "winds": len(sc["winds"]), "grav": sc["grav"], "extra": sc["extra"], "timed": sc["tstep"] > 0,
           "status": c["status"]}
    det = {"scenario": sc, "expected": {"status": c["status"], "reason": c["reason"], "rows": c["rows"], "iterations": c["its"]},
           "observed": {"status": o["status"], "reason": o["reason"], "rows": o["obs_rows"], "iterations": o["its"]}}
    obs = o["obs_rows"]
    if prop == "C04":
        if o["status"] == "timeout":
            chk.violation("C04.Terminates", key, det)
        elif o["status"] != c["status"]:
            chk.violation("C04.MissedLimit" if c["status"] == "RangeErr" else "C04.SpuriousRaise", key, det)
        elif c["status"] == "RangeErr":
            if o["reason"] != REASON[c["reason"]]:
                chk.violation("C04.ReasonPrecedence", key, det)
            if not obs or (obs[-1]["x"], obs[-1]["t"], obs[-1]["y"]) != (exp_rows[-1]["x"], exp_rows[-1]["t"], exp_rows[-1]["y"]):
                chk.violation("C04.TerminalRow", key, det)
            if o["its"] != c["its"]:
                chk.violation("C04.StoppedAtWrongIteration", key, det)
    elif prop == "C03":
        er = [(r["x"], "R" in r["fl"]) for r in exp_rows if "R" in r["fl"] or not r["fl"]]
        orr = [(r["x"], "R" in r["fl"]) for r in obs if "R" in r["fl"] or not r["fl"]]
        if o["status"] == c["status"] and er != orr:
            chk.violation("C03.LatticeRowsDiffer", key, det)
        if o["status"] == c["status"] == "Done" and o["its"] != c["its"]:
            chk.violation("C03.IterationBeyondRange" if o["its"] > c["its"] else "C03.LoopEndedEarly", key, det)
        if obs and exp_rows and exp_rows[0]["x"] == 0 and not _same_contents(obs[0], exp_rows[0]):
            chk.violation("C03.LatticeMuzzleRow", key, det)
    elif prop == "C12":
        if sc["winds"] and o["status"] == c["status"] and len(obs) == len(exp_rows):
            # the active segment determines dt: with a wrong / late / missing switch the times (and the iteration count) move
            if [r["t"] for r in obs] != [r["t"] for r in exp_rows] or o["its"] != c["its"]:
                chk.violation("C12.WrongSegment", key, det)
    elif prop == "C15":
        if o["status"] == c["status"] and len(obs) == len(exp_rows):
            ev = lambda rs: [(r["x"], [f for f in r["fl"] if f in ("U", "D")]) for r in rs]
            if ev(obs) != ev(exp_rows):
                chk.violation("C15.LatticeEventRowsDiffer", key, det)
    elif prop == "C11":
        if o["status"] == c["status"] and len(obs) != len(exp_rows):
            chk.violation("C11.RowEmission", key, det)
        elif o["status"] == c["status"]:
            # the state reported at a distance is the lattice state there: height exactly, the derived columns to rounding
            # (the expected rows of a plain request are a subset of those of the extra-data request: checked on the model in cases())
            bad = [j for j, (a, b) in enumerate(zip(obs, exp_rows)) if (a["x"], a["t"]) != (b["x"], b["t"]) or not _same_contents(a, b)]
            if bad:
                chk.violation("C11.LatticeRowContents", key, {**det, "rows": bad[:5]})


def _same_contents(a: Dict[str, Any], b: Dict[str, Any]) -> bool:
    """observed row a against expected lattice row b (same distance): height / target drop / look distance exact (dyadic
    arithmetic), speed, trajectory angle and drop adjustment to a few ulp of the exact vertical velocity"""
    y_ft, vy = b["y"] / 512.0, b["vy"] / 256.0
    x_ft = b["x"] / 4.0
    close = lambda u, v: abs(u - v) <= 4 * max(math.ulp(u), math.ulp(v), 5e-324)
    return (a["y"] == b["y"] and a["tdrop_ft"] == y_ft and a["look_ft"] == x_ft and a["wind_ft"] == 0.0
            and close(a["v_fps"], math.sqrt(16.0 + vy * vy)) and close(a["angle"], math.atan2(vy, 4.0))
            and close(a["dadj"], math.atan(y_ft / x_ft) if x_ft else 0.0))


_applicable: Dict[str, Any] = {}


def applicable(chk: core.Check) -> bool:
    """The lattice world is an exact model of the tree's integration arithmetic.  It may only be used to judge the tree if
    the PLAIN, unlimited computation obeys the lattice law (dt = calc_step / max(1, air speed), x += V dt, vy += g dt,
    y += vy dt; semi-implicit Euler): three reference fires (calm, tail wind + gravity, head wind) are recorded and every
    iteration compared exactly.  A tree that integrates differently (another scheme, another step law) is not wrong by any
    listed property - the lattice replay is then skipped with a note and the other bindings decide."""
    if "ok" in _applicable:
        return _applicable["ok"]
    refs = [dict(winds=[], grav=0), dict(winds=[[7, 100000]], grav=1), dict(winds=[[-8, 100000]], grav=0),
            dict(winds=[[6, 16], [4, 32]], grav=0)]
    why = None
    for r in refs:
        sc = dict(r, range=40, step=8, tstep=0, sight=16, drop=-64000, alt=-64000, vel=0, extra=False)
        o = run_case({"sc": sc}, keep_call=True)
        call = o.get("call")
        if o["status"] != "Done" or not call or not call["iters"]:
            why = f"reference fire {r} ended with {o['status']}"
            break
        g = -1.0 / 16.0 if r["grav"] else 0.0
        for it in call["iters"]:
            x = it["pre_r"].x
            seg = [w for w in r["winds"] if w[1] / 4.0 > x]        # the law's own wind: first segment ending beyond x
            w = (seg[0][0] / 2.0) if seg else 0.0
            vy0 = it["pre_v"].y
            air = math.sqrt((it["pre_v"].x - w) ** 2 + vy0 ** 2)
            dt = 0.5 / max(1.0, air)
            vy1 = vy0 + g * dt
            if (it["pre_v"].x != 4.0 or it["dt"] != dt or it["post_r"].x != x + 4.0 * dt or it["post_v"].y != vy1
                    or it["post_r"].y != it["pre_r"].y + vy1 * dt or it["post_t"] != it["pre_t"] + dt):
                why = (f"reference fire {r}: iteration {it['i']} at x={x} does not follow the lattice law "
                       f"(dt {it['dt']!r} vs {dt!r}, x' {it['post_r'].x!r}, vy' {it['post_v'].y!r} vs {vy1!r})")
                break
        if why:
            break
    _applicable["ok"] = why is None
    if why:
        chk.extra["lattice_world"] = "skipped: the tree's plain integration does not follow the lattice law - " + why
        chk.assumptions.append("lattice replay skipped (integration arithmetic differs from the lattice law; not a listed property)")
    return _applicable["ok"]


def replay(chk: core.Check, prop: str, thorough: bool, every: int = 1) -> None:
    if not applicable(chk):
        return
    cs = cases(chk, thorough)
    n = 0
    for i, c in enumerate(cs):
        if i % every:
            continue
        o = run_case(c)
        if o["status"] == "precondition-not-met":
            chk.extra["lattice_scenarios_skipped_inputs_not_exact"] = chk.extra.get("lattice_scenarios_skipped_inputs_not_exact", 0) + 1
            continue
        compare(chk, prop, c, o)
        n += 1
        chk.count(1, ("lattice", i) if c["its"] >= 3 else None)
        chk.stratum("lattice_" + c["status"])
        if c["sc"]["grav"]:
            chk.stratum("lattice_gravity")
        if len(c["sc"]["winds"]) >= 2:
            chk.stratum("lattice_multi_wind")
    chk.traces += n
    chk.sample({"lattice_scenario": cs[len(cs) // 3]["sc"], "expected_rows": cs[len(cs) // 3]["rows"][:4]})
