"""Shared machinery of the solver-loop properties C03 C04 C11 C12 C15 (and C18's step bound):

  design()        TLC on Integrator.tla (design model) with the property's invariants, several constant sets,
                  plus the named deviations of the pinned code that TLC must refute
  object_replay() spec -> code: TLC-generated controller behaviours (Gen_Integrator) driven into the REAL
                  _TrajectoryDataFilter and _WindSock objects, exact small-integer inputs, compared per call
  validate()      code -> spec: recorded fire() calls validated by Trace_Integrator, clauses filtered by owner
"""
from __future__ import annotations

import json
import random
from typing import Any, Dict, Iterable, List, Optional

from pbv import core, integ, scen

BASE = dict(MaxRange=6, RecStep=3, MinStep=1, TimeStep=0, Extra=True, MaxRange2=0, RecStep2=0, Adv="{1, 2, 3}",
            WindEnds="<<>>", Limits="{}", MuzzleSide=-1, BarrelAbove=True, StartSup=1, LoopRule='"owed"',
            SockRule='"strict"', MaxIt=80, MaxStall=0, SupSet="{0, 1}", FreeSide=True)

INVS = {
    "C03": ["C03_OneRowPerMultiple", "C03_FirstRowIsMuzzle", "C03_RecordedWhenReached", "C03_TimeGap"],
    "C04": ["C04_ReasonIsFirstViolated", "C04_StopsAtViolation", "C04_NoErrorWithoutViolation"],
    "C11": ["C11_RowsOnPolyline", "C11_CommonRowsPresent"],
    "C12": ["C12_SegmentByPosition"],
    "C15": ["C15_AtMostOnce", "C15_UpExactlyOnFirstCrossing", "C15_DownExactlyOnFirstReturn", "C15_DownOnlyAfterUp",
            "C15_MachOnTransition"],
}
PROPS = {"C15": ["C15_SeenMonotone"]}

# constant sets per property: (label, overrides, liveness?)
CONFIGS = {
    "C03": [("divides, tail-wind advances", dict(MaxRange=6, RecStep=3, Adv="{1, 2, 3}"), True),
            ("does not divide", dict(MaxRange=7, RecStep=3, Adv="{1, 2, 3}"), True),
            ("step = range", dict(MaxRange=4, RecStep=4, MinStep=2, Adv="{1, 2, 4}"), True),
            ("step < advance (catch-up loop)", dict(MaxRange=6, RecStep=1, Adv="{1, 2, 3}"), True),
            ("time step, stalls", dict(MaxRange=8, RecStep=4, TimeStep=2, Adv="{0, 1, 2}", Limits='{"Drop"}', MaxStall=3,
                                       SupSet="{1}", FreeSide=False), True)],
    "C04": [("all limit subsets", dict(Limits='{"Vel", "Drop", "Alt"}', Adv="{0, 1, 2}", MaxStall=3, SupSet="{1}", FreeSide=False), True),
            ("limits with time step", dict(Limits='{"Vel", "Alt"}', TimeStep=1, Adv="{0, 2}", MaxStall=2, Extra=False,
                                           SupSet="{1}", FreeSide=False), True),
            ("limits with events", dict(MaxRange=4, RecStep=2, Limits='{"Vel", "Drop"}', Adv="{1, 2}"), True)],
    "C11": [("coarser+shorter twin", dict(MaxRange=8, RecStep=4, MaxRange2=4, RecStep2=2, Adv="{1, 2}"), False),
            ("finer twin, big advances", dict(MaxRange=6, RecStep=2, MaxRange2=6, RecStep2=3, Adv="{1, 2, 3}"), False),
            ("plain twin of an extra request", dict(MaxRange=6, RecStep=3, MaxRange2=6, RecStep2=3, Extra=True, Adv="{1, 2}"), False)],
    "C12": [("dup + zero ends", dict(WindEnds="<<0, 2, 2, 5>>", Adv="{1, 2, 3}"), False),
            ("ends beyond range", dict(WindEnds="<<3, 9, 20>>", Adv="{1, 2, 3}"), False),
            ("three equal ends", dict(WindEnds="<<4, 4, 4>>", Adv="{1, 3}"), False),
            ("no winds", dict(WindEnds="<<>>", Adv="{2}"), False)],
    "C15": [("muzzle below, barrel above", dict(MuzzleSide=-1, BarrelAbove=True), False),
            ("muzzle below, barrel below", dict(MuzzleSide=-1, BarrelAbove=False), False),
            ("muzzle on/above", dict(MuzzleSide=1, BarrelAbove=True), False),
            ("muzzle on/above, barrel below", dict(MuzzleSide=1, BarrelAbove=False), False),
            ("subsonic start, plain", dict(StartSup=0, Extra=False, MuzzleSide=-1), False)],
}
THOROUGH_EXTRA = {
    "C03": [("long range", dict(MaxRange=12, RecStep=4, MinStep=2, Adv="{1, 2, 3, 4}"), True),
            ("long, odd", dict(MaxRange=11, RecStep=5, MinStep=1, Adv="{1, 3, 5}"), True)],
    "C04": [("limits, longer", dict(MaxRange=9, Limits='{"Vel", "Drop", "Alt"}', Adv="{0, 1, 3}", MaxStall=4, SupSet="{1}", FreeSide=False,
                                    MaxIt=120), True)],
    "C11": [("three-to-one", dict(MaxRange=12, RecStep=6, MaxRange2=9, RecStep2=2, Adv="{1, 2}"), False)],
    "C12": [("five segments", dict(MaxRange=10, WindEnds="<<0, 0, 3, 3, 7, 12>>", Adv="{1, 2, 4}"), False)],
    "C15": [("longer", dict(MaxRange=10, RecStep=5, MuzzleSide=-1, BarrelAbove=True, Adv="{1, 2}"), False)],
}
# named deviations of the pinned code that the bounded model must refute (else the clause is not exercised)
DEVIATIONS = {
    "C03": ("loop rule as pinned (x <= max + min_step only)", dict(LoopRule='"asis"', MaxRange=6, RecStep=3, Adv="{1, 2, 3}"),
            "C03_OneRowPerMultiple"),
    "C12": ("sock advances one segment per iteration", dict(SockRule='"asis"', WindEnds="<<0, 2, 2, 5>>"), "C12_SegmentByPosition"),
}


def design(chk: core.Check, prop: str) -> None:
    cfgs = list(CONFIGS[prop]) + (THOROUGH_EXTRA.get(prop, []) if chk.tier == "thorough" else [])
    for label, over, live in cfgs:
        d = dict(BASE)
        d.update(over)
        cfg, defs = core.consts(d)
        body = "SPECIFICATION Spec\n" + "".join(f"INVARIANT {i}\n" for i in INVS[prop]) + \
               "".join(f"PROPERTY {p}\n" for p in PROPS.get(prop, []))
        if live:
            body += "PROPERTY Terminates\n"
        r = chk.tlc(core.run_tlc("Integrator", cfg + body, defs=defs, coverage=True), f"Integrator[{prop}: {label}]")
        if not r.coverage.get("Integrator.Iteration"):
            raise core.MachineryError("Integrator.Iteration never taken")
    if prop in DEVIATIONS:
        label, over, inv = DEVIATIONS[prop]
        d = dict(BASE)
        d.update(over)
        cfg, defs = core.consts(d)
        r = core.run_tlc("Integrator", cfg + f"SPECIFICATION Spec\nINVARIANT {inv}\n", defs=defs)
        chk.tlc_runs.append({"what": f"Integrator deviation '{label}' (expected counterexample)", "violated": r.violated})
        if r.ok:
            raise core.MachineryError(f"deviation '{label}' was expected to violate {inv}")


# ---------------------------------------------------------------------------------------------------
# spec -> code: controller behaviours into the real filter / sock objects
# ---------------------------------------------------------------------------------------------------

GEN_SETS = [
    dict(MaxRange=6, RecStep=3, Adv="{1, 2, 3}", WindEnds="<<0, 2, 2, 5>>", MuzzleSide=-1, BarrelAbove=True, StartSup=1, Extra=True),
    dict(MaxRange=7, RecStep=2, Adv="{1, 2}", WindEnds="<<3, 3, 9>>", MuzzleSide=1, BarrelAbove=True, StartSup=1, Extra=True),
    dict(MaxRange=6, RecStep=1, Adv="{1, 2, 3}", WindEnds="<<4>>", MuzzleSide=-1, BarrelAbove=False, StartSup=0, Extra=False),
    dict(MaxRange=8, RecStep=4, TimeStep=2, Adv="{0, 1, 2}", WindEnds="<<>>", MuzzleSide=-1, BarrelAbove=True, StartSup=1,
         Extra=True, Limits='{"Drop"}', MaxStall=3),
    dict(MaxRange=5, RecStep=5, MinStep=2, Adv="{1, 2, 4}", WindEnds="<<0, 0>>", MuzzleSide=-1, BarrelAbove=True, StartSup=1, Extra=False),
    dict(MaxRange=6, RecStep=2, Adv="{1, 2}", WindEnds="<<1, 4>>", MuzzleSide=1, BarrelAbove=False, StartSup=1, Extra=True),
]


def gen_behaviours(chk: core.Check, n_per_set: int, seed: int) -> List[Dict[str, Any]]:
    out = []
    for si, over in enumerate(GEN_SETS):
        d = dict(BASE)
        d.update(over)
        cfg, defs = core.consts(d)
        r = core.run_tlc("Gen_Integrator", cfg + "SPECIFICATION GenSpec\nINVARIANT Emit\n", defs=defs, workers=1, tags=["BEH"],
                         simulate=f"num={n_per_set}", depth=60, seed=seed + si, timeout=600)
        behs = r.out("BEH")
        uniq = {}
        for b in behs:
            uniq.setdefault(json.dumps(b, sort_keys=True), b)
        chk.tlc_runs.append({"what": f"Gen_Integrator -simulate set {si}", "behaviours": len(behs), "distinct": len(uniq),
                             "states_generated": r.generated})
        chk.transitions += sum(len(b["its"]) for b in uniq.values())
        for b in uniq.values():
            b["consts"] = d
            out.append(b)
    return out


def _tuple_consts(d):
    import re
    ends = [int(x) for x in re.findall(r"-?\d+", d["WindEnds"])]
    return ends


def object_replay(chk: core.Check, prop: str, behs: List[Dict[str, Any]]) -> None:
    """Drive the real _TrajectoryDataFilter / _WindSock with a TLC behaviour; compare after every call."""
    import py_ballisticcalc as m
    from py_ballisticcalc.trajectory_calc import _TrajectoryDataFilter, _WindSock
    V = m.Vector
    U = m.Unit
    FL = integ.FLAG
    for bi, b in enumerate(behs):
        d = b["consts"]
        step, tstep, extra = d["RecStep"], d["TimeStep"], d["Extra"]
        ms, ba = d["MuzzleSide"], d["BarrelAbove"]
        ends = _tuple_consts(d)
        filt = 31 if extra else 8
        y0 = 1.0 if ms >= 0 else -1.0
        f = _TrajectoryDataFilter(filter_flags=filt, range_step=float(step), initial_position=V(0.0, y0, 0.0),
                                  initial_velocity=V(2.0, 0.0, 0.0), time_step=float(tstep))
        f.setup_seen_zero(y0, 0.25 if ba else -0.25, 0.0)
        winds = [m.Wind(U.FPS(float(i + 1)), U.Degree(0.0), U.Foot(float(e))) for i, e in enumerate(ends)]
        # hand the winds over in a scrambled order: the library must order them by until-distance
        rnd = random.Random(bi)
        shuffled = winds[:]
        rnd.shuffle(shuffled)
        if winds:
            if bi % 2:
                shot = m.Shot(weapon=m.Weapon(), ammo=m.Ammo(m.DragModel(0.3, m.TableG7), U.FPS(2000)), winds=shuffled)
            else:       # through the public setter
                shot = m.Shot(weapon=m.Weapon(), ammo=m.Ammo(m.DragModel(0.3, m.TableG7), U.FPS(2000)))
                shot.winds = shuffled
            sock = _WindSock(shot.winds)
        else:
            sock = _WindSock(None)
        wind_vector = sock.current_vector()
        key0 = {"set": {k: d[k] for k in ("MaxRange", "RecStep", "TimeStep", "Extra", "WindEnds", "MuzzleSide", "BarrelAbove", "StartSup")}}
        nontriv = len(b["its"]) >= 3
        for i, it in enumerate(b["its"]):
            x = float(it["x"])
            # ---- wind sock, with the call protocol of the solver loop
            if x >= sock.next_range:
                wind_vector = sock.vector_for_range(x)
            exp_seg = it["seg"]
            # equal until-distances may be ordered either way by the sort: the expected speed is that of the
            # first segment whose end lies beyond x, i.e. any wind with until-distance = the next boundary
            if exp_seg < len(ends):
                bnd = sorted(ends)[exp_seg]
                ok_speeds = {float(j + 1) for j, e in enumerate(ends) if e == bnd}
            else:
                ok_speeds = {0.0}
            chk.count(1)
            if prop in ("C12",) and wind_vector.x not in ok_speeds:
                chk.violation("C12.WrongSegment", {**key0, "source": "sock-object"},
                              {"behaviour": b, "iteration": i + 1, "x": x, "got_speed": wind_vector.x, "want_speeds": sorted(ok_speeds)})
            # ---- recorder
            f.clear_current_flag()
            yy = 1.0 if it["side"] >= 0 else -1.0
            vv = 2.0 if it["sup"] == 1 else 1.0
            data = f.should_record(V(x, yy, 0.0), V(vv, 0.0, 0.0), 1.0, float(i))
            got_fl = {k for k, bit in FL.items() if int(f.current_flag) & bit}
            want_fl = set(it["fl"])
            want_emit = bool(want_fl & ({"R", "U", "D", "M"} if extra else {"R"}))
            kk = {**key0, "source": "filter-object"}
            det = {"behaviour": b, "iteration": i + 1, "got_flags": sorted(got_fl), "want_flags": sorted(want_fl)}
            for fl_, cl in (("R", "C03"), ("U", "C15"), ("D", "C15"), ("M", "C15")):
                if prop != cl:
                    continue
                name = {"R": "Row", "U": "Up", "D": "Down", "M": "Mach"}[fl_]
                if fl_ in want_fl and fl_ not in got_fl:
                    chk.violation(f"{cl}.Missing{name}", kk, det)
                if fl_ in got_fl and fl_ not in want_fl:
                    chk.violation(f"{cl}.Spurious{name}", kk, det)
            if prop == "C11" and (data is not None) != want_emit:
                chk.violation("C11.RowWithoutFlag" if data is not None else "C11.FlaggedRowMissing", kk, det)
            if prop == "C03" and it["k"] >= 0:
                if data is None or abs(data.position.x - it["k"] * step) > 1e-12 * max(1.0, x):
                    chk.violation("C03.RowNotOnStep", kk, {**det, "got_x": None if data is None else data.position.x, "want_k": it["k"]})
                if f.next_record_distance != float((it["k"] + 1) * step):
                    chk.violation("C03.SkippedMultiple", kk, {**det, "next_record_distance": f.next_record_distance})
            if prop == "C15":
                got_seen = {k for k, bit in (("U", 1), ("D", 2)) if int(f.seen_zero) & bit}
                if got_seen != set(it["seen"]):
                    chk.violation("C15.SeenState", kk, {**det, "got_seen": sorted(got_seen), "want_seen": it["seen"]})
            for fl_ in want_fl:
                chk.stratum("obj_flag_" + fl_)
            if it["k"] >= 0 and i > 0 and it["x"] != it["k"] * step:
                chk.stratum("obj_interpolated_row")
        if len(set(ends)) < len(ends):
            chk.stratum("obj_duplicate_wind_ends")
        chk.count(0, ("obj", bi) if nontriv else None)
    chk.traces += len(behs)


# ---------------------------------------------------------------------------------------------------
# code -> spec
# ---------------------------------------------------------------------------------------------------

def validate(chk: core.Check, prop: str, outs: List[Dict[str, Any]], extra_lines: Optional[List[Dict[str, Any]]] = None,
             what: str = "recorded fire() calls") -> Dict[int, List[str]]:
    lines = [l for o in outs for l in o.get("lines", [])] + list(extra_lines or [])
    fails = core.validate_trace(chk, "Trace_Integrator", lines, what)
    by_tid: Dict[int, List[str]] = {}
    others: Dict[str, int] = {}
    by_out = {o["tid"]: o for o in outs}
    # Trace.* clauses say the projection and the monitor are out of step.  On a tree whose traces are otherwise clean that is a
    # fault of the machinery (exit 2); on a tree that violates properties elsewhere in the same batch it is the implementation
    # leaving the protocol (rows appended outside iterations, ...): recorded, and the property clauses give the verdict
    mach = [(tid, clause) for tid, clause in fails if scen.owner(clause) == "machinery"]
    if mach and len(mach) == len(fails):
        raise core.MachineryError(f"trace monitor reported {mach[0][1]} for trace {mach[0][0]}: projection/monitor out of step")
    if mach:
        chk.extra["trace_protocol_clauses_on_a_violating_tree"] = sorted({c for _, c in mach})
    for tid, clause in fails:
        own = scen.owner(clause)
        if own == "machinery":
            continue
        if own != prop:
            others[clause] = others.get(clause, 0) + 1
            continue
        by_tid.setdefault(tid, []).append(clause)
    for tid, cls in by_tid.items():
        o = by_out.get(tid, {})
        for clause in cls:
            chk.violation(clause, {"source": "real-shot", **violation_key(o)},
                          {"scenario": o.get("sc"), "summary": o.get("summ"), "outcome": o.get("outcome"), "tid": tid})
    chk.traces += len(outs)
    if others:
        chk.extra.setdefault("clauses_of_other_properties_observed", {}).update(others)
    return by_tid


def violation_key(o: Dict[str, Any]) -> Dict[str, Any]:
    sc = o.get("sc") or {}
    summ = o.get("summ") or {}
    return {"adv_gt_min_step": bool(summ.get("max_adv_over_step", 0) > 0), "winds": len((sc.get("shot") or {}).get("winds", [])),
            "extra": bool(sc.get("extra")), "timed": bool(sc.get("time_step")), "outcome": o.get("outcome")}
