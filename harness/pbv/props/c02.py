"""C02 - zeroing returns an elevation that actually hits the point of aim.

D   : ZeroFinder.tla - iteration protocol against an arbitrary environment; the 'store before search' deviation refuted.
C->S: generated un-canted shots x zero distances; set_weapon_zero recorded through hook H2 and at the API boundary
      (stored zero before/after, bit pattern); reachability established independently by firing along the sight line;
      when an elevation is returned the shot is fired with it and the distance from the sight line at the aim point is
      compared with the statement's bound.  Trace_ZeroFinder checks protocol conformance and the implications.
"""
from __future__ import annotations

import math
import random

from pbv import core, impl, integ, shots


def gen_case(rng: random.Random, i: int, thorough: bool):
    p = shots.gen_shot(rng, winds=rng.choice([0, 0, 1, 2]), look=0.0, cant=False)
    p["cant_deg"] = 0.0
    p["mv_fps"] = rng.choice([rng.uniform(600, 1100), rng.uniform(1100, 2000), rng.uniform(2000, 4000)])
    p["sight_in"] = rng.choice([-2.0, 0.0, 1.5, 2.0, 3.2, 6.0])
    p["look_deg"] = [0.0, 0.0, 5.0, -5.0, 10.0, -15.0, 20.0, 30.0, -30.0, 45.0, -45.0, 55.0, rng.uniform(-59, 59)][i % 13]
    p["alt_ft"] = rng.choice([0.0, 500.0, 3000.0])
    d_yd = rng.choice([3.0, 5.0, 10.0, 25.0, 50.0, 100.0, 100.0, 200.0, 300.0, 500.0, rng.uniform(2, 10), rng.uniform(10, 700), rng.uniform(700, 1500)])
    prev = rng.choice([0.0, 0.0, 0.001, 0.02, -0.003])
    if i % 6 == 5:
        # "any previously stored zero elevation": one FAR from the zero being sought (the search starts from it)
        prev = rng.choice([0.35, -0.35, 0.87, -0.6, 1.05])
    if i % 3 == 1:
        # the wind changes INSIDE the zero distance (different down-range components before and after)
        d_ft = d_yd * 3.0
        p["winds"] = [[rng.choice([15.0, 30.0]), rng.choice([180.0, 160.0, 90.0]), round(d_ft * rng.uniform(0.3, 0.7), 1)],
                      [rng.choice([15.0, 30.0]), rng.choice([0.0, 20.0, 270.0]), 1e8]]
    cfg = {"max_calc_step_size_feet": rng.choice([1.0, 2.0])} if not (thorough and rng.random() < 0.3) else {}
    if i % 4 == 3:
        # a small iteration cap and various accuracies: the search is cut short, the exit protocol (return only when the
        # accuracy is met, error otherwise, never more iterations than the cap) is what is exercised
        cfg["cMaxIterations"] = rng.choice([1, 2, 2, 3])
        cfg["cZeroFindingAccuracy"] = rng.choice([5e-6, 1e-4, 1e-3, 1e-2])
    if i % 5 == 2:
        p["powder"] = [rng.choice([15.0, -10.0, 35.0]), rng.choice([0.008, 0.015, 0.03])]       # launch velocity depends on the temperature
    # a hold-over left on the shot while it is zeroed (the statement fires back with none), and the zero distance handed over
    # in various units or as a bare number in the preferred distance unit
    return {"shot": p, "d_yd": d_yd, "prev_zero_rad": prev, "cfg": cfg, "holdover_rad": [0.0, 0.0015, 0.0, -0.004][i % 4],
            "pref_angular": [None, "InchesPer100Yd", "Mil", "CmPer100m", None, "Radian", "MOA", "CmPer100m", "InchesPer100Yd", "OClock", "Thousandth"][i % 11],
            "dist_as": ["Yard", "Meter", "Foot", "bare:Meter", "Yard", "bare:Foot", "Inch"][i % 7]}


def steep_long_case(rng, i):
    """very steep sight line and a long zero distance: the first guess is far off and the horizontal distance is about half
    the look distance, so a correction that is damped (or scaled by the wrong one of the two distances) runs out of
    iterations although the target is comfortably reachable"""
    c = gen_case(rng, i, False)
    p = c["shot"]
    p["look_deg"] = rng.choice([58.0, -58.0, 59.0, 57.0, -59.0, 55.0])
    p["table"], p["bc"] = rng.choice([("G7", 0.3), ("G7", 0.42), ("G1", 0.6)])
    p["mv_fps"] = round(rng.uniform(2700, 3300), 1)
    p["alt_ft"] = 6000.0 if p["look_deg"] < 0 else 0.0
    p["winds"] = p["winds"][:1]
    c["d_yd"] = round(rng.uniform(800, 1500), 1)
    c["cfg"] = {"max_calc_step_size_feet": 2.0}
    return c


def unreachable_case(rng, i):
    c = gen_case(rng, i, False)
    c["shot"]["mv_fps"] = 2500.0
    c["prev_zero_rad"] = rng.choice([0.001, 0.004])
    if (i // 9) % 2:
        # out of reach because the aim point lies BELOW the calculator's altitude floor on a steep downhill line: every trial
        # trajectory is cut off by the limit before the aim point
        c["shot"]["look_deg"] = rng.choice([-30.0, -35.0, -45.0])
        c["shot"]["alt_ft"] = 0.0
        c["shot"]["table"], c["shot"]["bc"] = "G7", 0.25
        c["d_yd"] = round(rng.uniform(1050.0, 1400.0), 1)
        c["cfg"] = {"max_calc_step_size_feet": 2.0}
        c["floor"] = True
    else:
        c["shot"]["look_deg"] = rng.choice([0.0, 3.0])
        c["d_yd"] = rng.choice([9000.0, 15000.0])
    return c


def run_case(case, tid):
    """returns (trace lines, info)"""
    m = impl.pb()
    U = m.Unit
    core.reset_world()
    p = dict(case["shot"], zero_rad=case["prev_zero_rad"], rel_rad=case.get("holdover_rad", 0.0))
    shot = shots.build_shot(p)
    calc = shots.build_calc(case["cfg"] or None)
    cfg = calc._calc._config
    look = math.radians(p["look_deg"])
    d_ft = case["d_yd"] * 3.0
    X = math.cos(look) * d_ft
    max_step = cfg.max_calc_step_size_feet
    # ---- reachability, independently of the zero finder: launched along the sight line, does the projectile pass X?
    probe = shots.build_shot(dict(p, zero_rad=0.0, rel_rad=0.0))
    try:
        calc.fire(probe, U.Foot(X), U.Foot(X))
        reachable = True
    except m.RangeError:
        reachable = False
    # "does not fail" is only demanded with a margin of reach: at the very edge of the projectile's range (a sphere at 50 fps)
    # the arc needed to hit may itself run into the limits, which the statement's definition of reach does not see
    comfortably = False
    if reachable:
        try:
            calc.fire(probe, U.Foot(1.25 * X), U.Foot(1.25 * X))
            comfortably = True
        except m.RangeError:
            pass
    if tid % 4 == 1:
        # the calculator has a history: another rifle fired canted, a zero far beyond reach - nothing of it may reach this zeroing
        from pbv import scen as _scen
        info_pre = _scen.prehistory(m, calc)
    stored_before = shot.weapon.zero_elevation
    sb = (float(stored_before.raw_value).hex(), id(stored_before))
    rec = integ.Recorder(keep_integrate=False).install()
    das = case.get("dist_as", "Yard")
    if das.startswith("bare:"):
        du = getattr(U, das[5:])
        m.PreferredUnits.distance = du
        d_arg = U.Yard(case["d_yd"]) >> du
    else:
        du = getattr(U, das)
        d_arg = du(U.Yard(case["d_yd"]) >> du)
    # the preferred ANGLE unit in force while zeroing (every input carries its unit, so it must not matter); the tangent-based
    # units are the ones in which differences of angles are not angles
    pa = case.get("pref_angular")
    if pa:
        m.PreferredUnits.angular = getattr(U, pa)
        m.PreferredUnits.adjustment = getattr(U, pa)
    o = impl.outcome(calc.set_weapon_zero, shot, d_arg)
    rec.remove()
    m.PreferredUnits.defaults()
    shot.relative_angle = U.Radian(0.0)          # "fired with it and no further hold-over"
    z = rec.zcalls[-1] if rec.zcalls else None
    # "does not fail for reachable targets" presumes the documented iteration budget: with a smaller cap only the protocol is checked
    demand = bool(comfortably and cfg.cMaxIterations >= 20)
    if demand and o[0] != "ok":
        # Passing the aim point's horizontal distance says nothing about its HEIGHT: a slow projectile on an uphill line may be
        # unable to climb to the aim point at any elevation.  Before demanding success, establish with the solver itself (fire,
        # not the zero finder) that some elevation puts the trajectory on or above the sight line at the aim point.
        hittable = False
        tanl = math.tan(look)
        for k in range(1, 31):
            pr = shots.build_shot(dict(p, zero_rad=math.radians(2.0 * k), rel_rad=0.0))
            try:
                hr_ = calc.fire(pr, U.Foot(X), U.Foot(X))
                row_ = hr_.trajectory[-1]
                if (row_.distance >> U.Foot) >= X * (1 - 1e-9) and (row_.height >> U.Foot) >= X * tanl:
                    hittable = True
                    break
            except m.RangeError:
                continue
        demand = hittable
    lines = [{"tid": tid, "ev": "ZBegin", "reachable": demand, "maxIter": int(cfg.cMaxIterations)}]
    if z is not None:
        for it in z["iters"]:
            lines.append({"tid": tid, "ev": "ZIter", "errOK": bool(it["error"] <= cfg.cZeroFindingAccuracy)})
    stored_after = shot.weapon.zero_elevation
    outcome = "Returned" if o[0] == "ok" else {"ZeroFindingError": "ZeroErr", "RangeError": "RangeErr"}.get(o[1], "other:" + o[1])
    last_elev = z["iters"][-1]["elevation"] if z and z["iters"] else None
    info = {"case": case, "reachable": reachable, "outcome": outcome, "iterations": len(z["iters"]) if z else None,
            "last_elevation_above_sight_line_rad": None if last_elev is None else last_elev - look,
            "arc_class": "unknown" if last_elev is None else ("high" if abs(last_elev - look) > 0.12 else "flat"),
            "last_error_ft": z["iters"][-1]["error"] if z and z["iters"] else None,
            "error_tail_ft": [it["error"] for it in z["iters"][-6:]] if z else None,
            "elevation_tail_rad": [it["elevation"] for it in z["iters"][-6:]] if z else None}
    end = {"tid": tid, "ev": "ZEnd", "outcome": outcome if not outcome.startswith("other") else "other",
           "storedSame": bool(float(stored_after.raw_value).hex() == sb[0]),
           "storedIsResult": True, "observed": False, "missOK": True, "reaches": True}
    # the error a failed search raises says what happened: the number of trials made, the error of the last trial, and the last
    # elevation (an angle; the one the search would have tried next) - compared with what hook H2 logged
    end["errorTruthful"] = True
    if outcome == "ZeroErr" and z is not None and z["iters"]:
        x = o[2]
        le = getattr(x, "last_barrel_elevation", None)
        end["errorTruthful"] = bool(
            getattr(x, "iterations_count", None) == len(z["iters"])
            and getattr(x, "zero_finding_error", None) == z["iters"][-1]["error"]
            and hasattr(le, "raw_value") and type(le).__name__ == "Angular"
            and (z["end"] is None or abs((le >> U.Radian) - z["end"]["elevation"]) <= 1e-12 * max(1.0, abs(z["end"]["elevation"]))))
        info["error_fields"] = {"iterations_count": getattr(x, "iterations_count", None), "zero_finding_error": getattr(x, "zero_finding_error", None),
                                "last_barrel_elevation": repr(le)}
    if o[0] == "ok":
        end["storedIsResult"] = bool(float(stored_after.raw_value).hex() == float(o[1].raw_value).hex())
        # ---- fire with the returned zero and no hold-over; read the distance from the sight line at the aim point
        rec2 = integ.Recorder().install()
        try:
            hr = calc.fire(shot, U.Foot(X + 3 * max_step), U.Foot(X))
            rows = hr.trajectory
        except m.RangeError as e:
            rows = e.incomplete_trajectory
            # fired with the returned zero, the projectile is stopped by a limit before the aim point's distance
            if not rows or (rows[-1].distance >> U.Foot) < X * (1 - 1e-9):
                end["reaches"] = False
                info["fired_back_stopped_at_ft"] = (rows[-1].distance >> U.Foot) if rows else None
        finally:
            rec2.remove()
        row = next((r for r in rows if abs((r.distance >> U.Foot) - X) <= 1e-6 * max(1.0, X) and int(r.flag) & 8 and (r.distance >> U.Foot) > 0), None)
        its = rec2.calls[-1]["iters"] if rec2.calls else []
        si = next((j for j, (a, b) in enumerate(zip(its, its[1:])) if a["pre_r"].x <= X <= b["pre_r"].x), None)
        step = (its[si], its[si + 1]) if si is not None else None
        if row is not None and step is not None:
            tanl, cosl = math.tan(look), math.cos(look)
            perp = lambda r_: (r_.y - r_.x * tanl) * cosl
            along = lambda r_: r_.x / cosl if cosl else r_.x
            a_, b_ = step[0]["pre_r"], step[1]["pre_r"]
            # travel and slope are both measured per unit of DOWN-RANGE distance, the library's notion of distance (the
            # solver's loop bound and step limit are down-range quantities): slope = change of the distance from the
            # sight line per foot down-range over the step that crosses the aim point
            dx = max(1e-12, b_.x - a_.x)
            slope_rel = abs(perp(b_) - perp(a_)) / dx
            # the trajectory curves: take the steepest of the steps from the aim point to where the finder sampled
            # (the crossing step and the two following ones, as far as they were integrated)
            for j in range(si + 1, min(si + 3, len(its) - 1)):
                pa, pb = its[j]["pre_r"], its[j + 1]["pre_r"]
                if pb.x > pa.x:
                    slope_rel = max(slope_rel, abs(perp(pb) - perp(pa)) / (pb.x - pa.x))
            travel = max(max_step, cfg.max_calc_step_size_feet / 2.0 + dx)
            bound = cfg.cZeroFindingAccuracy + travel * slope_rel
            miss = abs(row.target_drop >> U.Foot)
            end["observed"] = True
            end["missOK"] = bool(miss <= bound * (1 + 1e-6) + 1e-9)
            info.update({"miss_ft": miss, "bound_ft": bound, "slope_rel": slope_rel})
            if tid % 5 == 2 and X <= 2400.0:
                # ... and fired once more asking for a FINE card (rows closer together than the maximum integration step): what is
                # recorded does not change what is computed, so the trajectory passes the aim point just as close to the sight line
                # (read off the integration points themselves, interpolated at the aim point's distance)
                rec4 = integ.Recorder().install()
                try:
                    calc.fire(shot, U.Foot(X + 3 * max_step), U.Foot(0.45 * max_step))
                except m.RangeError:
                    pass
                finally:
                    rec4.remove()
                its2 = rec4.calls[-1]["iters"] if rec4.calls else []
                sj = next((j for j, (a2, b2) in enumerate(zip(its2, its2[1:])) if a2["pre_r"].x <= X <= b2["pre_r"].x), None)
                if sj is not None:
                    a2, b2 = its2[sj]["pre_r"], its2[sj + 1]["pre_r"]
                    ratio = (X - a2.x) / max(1e-12, b2.x - a2.x)
                    miss2 = abs(perp(a2) + (perp(b2) - perp(a2)) * ratio)
                    info["miss_with_a_fine_card_ft"] = miss2
                    end["missOK"] = bool(end["missOK"] and miss2 <= bound * (1 + 1e-6) + 1e-9)
    if outcome == "ZeroErr" and last_elev is not None:
        # Is the failure explained by the finder's sampling discontinuity?  The finder reads the trajectory where the loop
        # stopped; when the elevation changes, that point jumps by one step, and the measured error jumps by
        # (one step of travel) x (slope relative to the sight line).  If the last error is within that jump, the last
        # candidate elevation does satisfy the statement's accuracy bound at the aim point - the finder just cannot see it.
        try:
            probe2 = shots.build_shot(dict(p, zero_rad=last_elev - look, rel_rad=0.0))
            rec3 = integ.Recorder().install()
            try:
                calc.fire(probe2, U.Foot(X + 3 * max_step), U.Foot(X))
            except m.RangeError:
                pass
            finally:
                rec3.remove()
            its = rec3.calls[-1]["iters"]
            tanl, cosl = math.tan(look), math.cos(look)
            perp = lambda r_: (r_.y - r_.x * tanl) * cosl
            si = next((j for j, (a, b) in enumerate(zip(its, its[1:])) if a["pre_r"].x <= X <= b["pre_r"].x), None)
            if si is not None:
                sl, dxm = 0.0, 0.0
                for j in range(si, min(si + 3, len(its) - 1)):
                    pa, pb = its[j]["pre_r"], its[j + 1]["pre_r"]
                    if pb.x > pa.x:
                        sl = max(sl, abs(perp(pb) - perp(pa)) / (pb.x - pa.x))
                        dxm = max(dxm, pb.x - pa.x)
                jump = max(max_step, max_step / 2.0 + dxm) * sl / max(cosl, 1e-9)      # vertical error, as the finder measures it
                info["sampling_jump_ft"] = jump
                info["error_within_sampling_jump"] = bool(z["iters"][-1]["error"] <= jump * 1.05)
        except Exception as ex:  # noqa
            info["sampling_jump_error"] = type(ex).__name__
    # signature of the recorded sampling-discontinuity finding: the search has entered a CYCLE (the same elevations recur with
    # period 2..4); a search that is still converging when the cap runs out (damped / mis-scaled correction) has no cycle
    et = info.get("elevation_tail_rad") or []
    cyc = False
    if len(et) >= 3:
        dmax = max(abs(a - b) for a, b in zip(et, et[1:]))
        cyc = dmax > 0 and any(len(et) > p_ and abs(et[-1] - et[-1 - p_]) <= 1e-3 * dmax for p_ in (2, 3, 4))
    info["elevations_cycle"] = bool(cyc)
    # ... and of the recorded slow-convergence finding: the error shrinks by a roughly constant factor per iteration (linear
    # convergence) and simply has not reached the accuracy when the cap runs out
    errs = info.get("error_tail_ft") or []
    ratios = [b_ / a_ for a_, b_ in zip(errs, errs[1:]) if a_ > 0]
    info["converging_linearly"] = bool(len(ratios) >= 4 and all(0.0 < r_ < 0.9 for r_ in ratios)
                                       and max(ratios) - min(ratios) <= 0.1 * max(ratios))
    lines.append(end)
    info["end"] = end
    return lines, info


def run(chk: core.Check, replay=None) -> None:
    core.use_repo()
    thorough = chk.tier == "thorough"
    for mi in ((2, 4) if thorough else (3,)):
        cfg, defs = core.consts(dict(MaxIter=mi, StoreRule='"after"', RestartRule='"once"'))
        r = chk.tlc(core.run_tlc("ZeroFinder", cfg + "SPECIFICATION Spec\nINVARIANT C02_ReturnedMeetsAccuracy\nINVARIANT C02_ErrorMeansNotMet\n"
                                 "INVARIANT C02_IterationCap\nINVARIANT C02_FailureKeepsZero\nPROPERTY C02_StoreOnlyAfterReturn\n"
                                 "INVARIANT C02_AtMostOneRestart\nINVARIANT C02_RangeErrorOnlyAfterTheSightLineWasTried\n",
                                 defs=defs, coverage=True), f"ZeroFinder MaxIter={mi}")
        for a in ("Begin", "Trial", "Store"):
            if not r.coverage.get(f"ZeroFinder.{a}"):
                raise core.MachineryError(f"ZeroFinder.{a} never taken")
    cfg, defs = core.consts(dict(MaxIter=2, StoreRule='"after"', RestartRule='"never"'))
    r3 = core.run_tlc("ZeroFinder", cfg + "SPECIFICATION Spec\nINVARIANT C02_RangeErrorOnlyAfterTheSightLineWasTried\n", defs=defs)
    chk.tlc_runs.append({"what": "ZeroFinder RestartRule=never (the tree before c38d3cc; expected counterexample)", "violated": r3.violated})
    if r3.ok:
        raise core.MachineryError("RestartRule=never expected to be refuted")
    cfg, defs = core.consts(dict(MaxIter=2, StoreRule='"before"', RestartRule='"once"'))
    r2 = core.run_tlc("ZeroFinder", cfg + "SPECIFICATION Spec\nINVARIANT C02_FailureKeepsZero\n", defs=defs)
    chk.tlc_runs.append({"what": "ZeroFinder StoreRule=before (expected counterexample)", "violated": r2.violated})
    if r2.ok:
        raise core.MachineryError("StoreRule=before expected to be refuted")
    rng = random.Random(chk.seed * 37 + 2)
    n = 600 if thorough else 52
    lines, infos = [], {}
    for i in range(n):
        case = unreachable_case(rng, i) if i % 9 == 8 else (steep_long_case(rng, i) if i % 9 == 4 else gen_case(rng, i, thorough))
        if i % 9 == 4:
            chk.stratum("steep_and_long")
        ls, info = run_case(case, i + 1)
        lines += ls
        infos[i + 1] = info
        look = abs(case["shot"]["look_deg"])
        chk.count(1, ("zero", i) if info["outcome"] == "Returned" else None)
        chk.stratum("outcome_" + info["outcome"].split(":")[0])
        chk.stratum("reachable" if info["reachable"] else "unreachable")
        if case.get("floor") and not info["reachable"]:
            chk.stratum("unreachable_below_the_altitude_floor")
        chk.stratum("look_level" if look < 1 else ("look_mild" if look <= 10 else ("look_steep" if look < 40 else "look_very_steep")))
        if info["end"]["observed"]:
            chk.stratum("miss_observed")
        if info.get("miss_with_a_fine_card_ft") is not None:
            chk.stratum("fired_back_with_a_fine_card")
        if case["prev_zero_rad"] != 0.0:
            chk.stratum("previous_zero_nonzero")
        if abs(case["prev_zero_rad"]) >= 0.3 and info["reachable"]:
            chk.stratum("previous_zero_far_from_the_new_one")
        if case.get("pref_angular") in ("InchesPer100Yd", "CmPer100m") and look >= 5 and info["outcome"] == "Returned":
            chk.stratum("tangent_based_preferred_angle_on_inclined_line")
        if len(case["shot"]["winds"]) >= 2 and case["shot"]["winds"][0][2] < case["d_yd"] * 3.0:
            chk.stratum("wind_changes_inside_zero_distance")
        if info["outcome"] == "ZeroErr":
            chk.stratum("error_fields_compared_with_the_logged_search")
        if case["cfg"].get("cMaxIterations"):
            chk.stratum("small_iteration_cap_" + info["outcome"].split(":")[0])
    # ---- the iteration cap reached with the last error JUST above the accuracy (placed from a dry run of the same zeroing with
    #      the documented budget: cap = 2 trials, accuracy = a fifth of the error of the second trial): an error is due, not an angle
    rng2 = random.Random(chk.seed * 41 + 7)
    placed = 0
    for j in range(12):
        if placed >= (12 if thorough else 3):
            break
        case = gen_case(rng2, 7 * j, False)      # (7j: never the small-cap variant, rotating look angles)
        case["cfg"] = {"max_calc_step_size_feet": 2.0}
        case["shot"].pop("powder", None)
        _, dry = run_case(case, 0)
        errs = dry.get("error_tail_ft") or []
        if dry["outcome"] != "Returned" or not (3 <= (dry["iterations"] or 0) <= 6) or errs[1] <= 0:
            continue
        case2 = dict(case, cfg={"max_calc_step_size_feet": 2.0, "cMaxIterations": 2, "cZeroFindingAccuracy": errs[1] / 5.0})
        n += 1
        ls, info = run_case(case2, n)
        lines += ls
        infos[n] = info
        placed += 1
        chk.count(1, ("placed-cap", j))
        chk.stratum("cap_reached_with_error_just_above_accuracy")
    # ---- stored zeros so far off that the FIRST trial shot (launched with the stored zero) cannot reach the zero distance although the
    #      target is comfortably within reach along the sight line (found by a seed sweep; repaired in /repo, known_findings.json)
    for look_, prev_, d_ in ((-5.0, -0.35, 1001.9), (55.0, 1.05, 5.0), (55.0, 0.87, 300.0), (-15.0, -0.6, 500.0)):
        case = gen_case(rng2, 0, False)
        case["shot"].update({"look_deg": look_, "mv_fps": 2900.0, "table": "G7", "bc": 0.3, "winds": [], "alt_ft": 0.0, "sight_in": 2.0})
        case["shot"].pop("powder", None)
        case.update({"d_yd": d_, "prev_zero_rad": prev_, "cfg": {"max_calc_step_size_feet": 2.0}, "holdover_rad": 0.0015})
        n += 1
        ls, info = run_case(case, n)
        lines += ls
        infos[n] = info
        chk.count(1, ("first-trial-short", look_, prev_, d_))
        chk.stratum("stored_zero_whose_first_trial_cannot_reach_the_zero_distance")
    # ---- a calculator with a history: after a zero on one sight line, a zero on a very different one (steep downhill, then long and
    #      level from a low station; steep uphill, then downhill; twice the same) - each second zeroing gives exactly what a fresh
    #      calculator gives, and in particular does not fail
    m = impl.pb()
    U = m.Unit
    base_p = {"table": "G7", "bc": 0.3, "mv_fps": 2800.0, "sight_in": 2.0, "alt_ft": 0.0, "winds": [], "cant_deg": 0.0}
    for (l1, d1), (l2, d2) in (((-40.0, 200.0), (0.0, 1000.0)), ((45.0, 300.0), (-10.0, 900.0)), ((-45.0, 150.0), (3.0, 1300.0)), ((0.0, 100.0), (0.0, 100.0))):
        core.reset_world()
        used = shots.build_calc({"max_calc_step_size_feet": 2.0})
        o1 = impl.outcome(used.set_weapon_zero, shots.build_shot(dict(base_p, look_deg=l1)), U.Yard(d1))
        o2 = impl.outcome(used.set_weapon_zero, shots.build_shot(dict(base_p, look_deg=l2)), U.Yard(d2))
        fresh = impl.outcome(shots.build_calc({"max_calc_step_size_feet": 2.0}).set_weapon_zero, shots.build_shot(dict(base_p, look_deg=l2)), U.Yard(d2))
        chk.count(1, ("history", l1, d1, l2, d2))
        chk.stratum("zero_after_a_zero_on_another_sight_line")
        same = o2[0] == fresh[0] and (o2[0] != "ok" or float(o2[1].raw_value).hex() == float(fresh[1].raw_value).hex())
        if not same:
            chk.violation("C02.ZeroDependsOnEarlierZeroing", {"first": [l1, d1], "second": [l2, d2]},
                          {"first_outcome": o1[0] if o1[0] == "ok" else o1[1], "second_on_used_calculator": repr(o2[1])[:120],
                           "second_on_fresh_calculator": repr(fresh[1])[:120]})
    fails = core.validate_trace(chk, "Trace_ZeroFinder", lines, "set_weapon_zero calls")
    chk.traces += n
    for tid, clause in fails:
        info = infos[tid]
        look = abs(info["case"]["shot"]["look_deg"])
        chk.violation(clause, {"look_class": "level" if look < 1 else ("mild" if look <= 10 else ("steep" if look < 40 else "very_steep")),
                               "outcome": info["outcome"], "reachable": info["reachable"], "arc_class": info["arc_class"],
                               "error_within_sampling_jump": info.get("error_within_sampling_jump"),
                               "elevations_cycle": info.get("elevations_cycle"),
                               "converging_linearly": info.get("converging_linearly")}, info)
    chk.sample({k: v for k, v in infos[1].items()})
    chk.sample({"trace_lines": lines[:4]})
    chk.require_strata(["zero_after_a_zero_on_another_sight_line", "unreachable_below_the_altitude_floor", "reachable", "unreachable", "look_level", "look_mild", "look_steep",
                        "miss_observed", "stored_zero_whose_first_trial_cannot_reach_the_zero_distance", "fired_back_with_a_fine_card", "cap_reached_with_error_just_above_accuracy", "error_fields_compared_with_the_logged_search", "previous_zero_nonzero", "previous_zero_far_from_the_new_one", "tangent_based_preferred_angle_on_inclined_line", "small_iteration_cap_ZeroErr", "wind_changes_inside_zero_distance", "steep_and_long"])
    chk.exhaustive = False
    chk.rule.append("seeded un-canted shots (G1/G7/.. tables, 600-4000 fps, sight heights -2..6 in, look angles 0, +-5..+-59 deg, 0-2 "
                    "winds, previously stored zero 0 / small / large / negative) x zero distances 10 yd - 1500 yd, plus unreachable "
                    "distances; non-trivial = a zeroing that returned an elevation")
    chk.assumptions += ["reachable = the shot launched along the sight line passes the aim point's horizontal distance without a RangeError",
                        "bound = zero accuracy + (one integration step of travel) x |slope relative to the sight line| measured on the step "
                        "that crosses the aim point, per foot of down-range distance; one step of travel = max(configured maximum step, half of it + the down-range advance of that step)",
                        "missOK / reachable are float predicates evaluated by the projection; the spec decides the protocol and implications"]
