"""C03 - range card has exactly one row at every requested distance, muzzle to range."""
from __future__ import annotations

import random

from pbv import core, loopsuite, scen, shots


def scenarios(rng: random.Random, n: int, thorough: bool):
    scs = []
    kinds = ["none", "tail", "head", "cross", "multi", "tail", "strongtail"]
    for i in range(n):
        kind = kinds[i % len(kinds)]
        p = shots.gen_shot(rng, winds=0, slow=(kind == "strongtail"))
        if kind == "strongtail":
            # a slow projectile in a tail wind: ground advance per iteration well above the air-relative step
            p["mv_fps"] = rng.choice([300.0, 420.0, 640.0])
            p["winds"] = [[rng.choice([120.0, 200.0, 260.0]), 0.0, 1e8]]
            p["look_deg"] = 0.0
        else:
            p["winds"] = scen.wind_list(rng, kind)
        cfg = scen.coarse_cfg(rng, thorough)
        ms = (cfg or {}).get("max_calc_step_size_feet", 0.5)
        req = scen.gen_request(rng, ms, extra_p=0.0)
        if kind == "strongtail":
            req["range_ft"] = rng.choice([90.0, 300.0, 600.0])
            req["step_ft"] = req["range_ft"] / rng.choice([3, 10])
            req.pop("time_step", None)
        if i % 9 == 0:
            req["step_ft"] = None      # default step: 11 rows
            req.pop("time_step", None)
        scs.append({"shot": p, "cfg": cfg, "tid": i + 1, "kind": kind, **req})
    return scs


def run(chk: core.Check, replay=None) -> None:
    core.use_repo()
    thorough = chk.tier == "thorough"
    loopsuite.design(chk, "C03")
    behs = loopsuite.gen_behaviours(chk, 3000 if thorough else 400, chk.seed + 3)
    loopsuite.object_replay(chk, "C03", behs)
    rng = random.Random(chk.seed * 7 + 3)
    scs = scenarios(rng, 400 if thorough else 36, thorough)
    outs = scen.run_batch(scs)
    for o in outs:
        sc, summ = o["sc"], o.get("summ", {})
        chk.count(1, ("shot", o["tid"]) if summ.get("n_rows", 0) >= 3 else None)
        if o["outcome"] == "ok":
            chk.stratum("done")
            if summ.get("max_adv_over_step", 0) and sc["kind"] in ("tail", "strongtail"):
                chk.stratum("tail_wind")
            if sc.get("step_ft") is None:
                chk.stratum("default_step")
            elif abs(sc["range_ft"] / sc["step_ft"] - round(sc["range_ft"] / sc["step_ft"])) > 1e-6:
                chk.stratum("non_dividing_step")
            else:
                chk.stratum("dividing_step")
            if sc.get("time_step"):
                chk.stratum("time_step")
        elif o["outcome"] not in ("RangeError",):
            if o["outcome"] == "timeout":
                continue    # C04's business
    loopsuite.validate(chk, "C03", outs)
    for o in outs[:3]:
        chk.sample({"scenario": o["sc"], "outcome": o["outcome"], "rows": len(o["rows"]), "projected_lines": o["summ"].get("lines"),
                    "first_lines": o["lines"][:3]})
    chk.sample({"tlc_behaviour": {k: v for k, v in behs[0].items() if k != "consts"}})
    chk.require_strata(["done", "tail_wind", "default_step", "non_dividing_step", "dividing_step", "time_step",
                        "obj_flag_R", "obj_interpolated_row"])
    chk.exhaustive = False
    chk.rule.append("design: Integrator.tla exhaustively on the listed constant sets; spec->code: distinct TLC-simulated controller "
                    "behaviours replayed into the real _TrajectoryDataFilter; code->spec: seeded real shots (head/tail/cross/multi "
                    "winds, strong tail winds on slow projectiles, dividing / non-dividing / default / unit-bearing steps, time steps) "
                    "validated by Trace_Integrator; non-trivial = a call with >= 3 rows or a behaviour with >= 3 iterations")
    chk.assumptions += ["threshold predicates of the projection carry a relative 1e-10 band (either reaction accepted inside it)",
                        "end-of-run clauses apply when the trace shows forward motion, ground advance <= record step and no RangeError"]
