"""C03 - range card has exactly one row at every requested distance, muzzle to range."""
from __future__ import annotations

import random

from pbv import core, lattice, loopsuite, scen, shots


CANTS = [-20.0, 200.0, 5.0, -90.0, 300.0, 30.0, 135.0, -135.0, 90.0, 355.0]


def scenarios(rng: random.Random, n: int, thorough: bool):
    scs = []
    kinds = ["none", "tail", "head", "cross", "multi", "tail", "strongtail"]
    for i in range(n):
        kind = kinds[i % len(kinds)]
        p = shots.gen_shot(rng, winds=0, slow=(kind == "strongtail"), cant=(i % 4 == 1))
        if i % 4 == 1:
            # cants of every quadrant (the sine AND the cosine of the cant take both signs) over a sight that is not on the bore
            p["cant_deg"] = CANTS[(i // 4) % len(CANTS)]
            if abs(p["sight_in"]) < 0.5:
                p["sight_in"] = 2.5
        if kind == "strongtail":
            # a slow projectile in a tail wind: ground advance per iteration well above the air-relative step
            p["mv_fps"] = rng.choice([300.0, 420.0, 640.0])
            p["winds"] = [[rng.choice([120.0, 200.0, 260.0]), 0.0, 1e8]]
            p["look_deg"] = 0.0
        else:
            p["winds"] = scen.wind_list(rng, kind)
        cfg = scen.coarse_cfg(rng, thorough)
        ms = (cfg or {}).get("max_calc_step_size_feet", 0.5)
        req = scen.gen_request(rng, ms, extra_p=0.0)
        if kind == "strongtail":
            req["range_ft"] = rng.choice([90.0, 300.0, 600.0])
            req["step_ft"] = req["range_ft"] / rng.choice([3, 10])
            req.pop("time_step", None)
        if i % 9 == 0:
            req["step_ft"] = None      # default step: 11 rows
            req.pop("time_step", None)
        scs.append({"shot": p, "cfg": cfg, "tid": i + 1, "kind": kind, **req})
    return scs


def long_cards(rng: random.Random, n: int, start_tid: int):
    """Long range cards asked for in round numbers of a unit whose inch conversion is inexact (hundreds of rows: the quotient
    range / step is a whole number in the user's unit but carries rounding in the library's): the row AT the range is owed"""
    scs = []
    menu = [(500.0, 1.0, "Meter"), (1000.0, 2.0, "Meter"), (1000.0, 2.5, "Meter"), (2000.0, 5.0, "Meter"), (1.2, 0.002, "Kilometer"),
            (90000.0, 250.0, "Centimeter"), (700.0, 1.0, "Yard"), (630.0, 0.7, "Meter")]
    for i in range(n):
        R, S, un = menu[i % len(menu)] if i < len(menu) else (float(rng.randrange(300, 1500)), rng.choice([1.0, 2.0, 2.5, 0.5, 4.0]), "Meter")
        p = shots.gen_shot(rng, winds=0, look=0.0)
        p["mv_fps"], p["table"], p["bc"] = 2900.0, "G7", 0.3
        ft = {"Meter": 1 / 0.3048, "Kilometer": 1000 / 0.3048, "Centimeter": 0.01 / 0.3048, "Yard": 3.0}[un]
        scs.append({"shot": p, "cfg": {"max_calc_step_size_feet": 2.0}, "tid": start_tid + i, "kind": "long_card", "range_ft": R * ft,
                    "unit": "Foot", "step_ft": S * ft, "extra": False, "request_in_unit": [R, S, un]})
    return scs


def adversarial(rng: random.Random, n: int, start_tid: int):
    """Requests whose range is placed, from a dry run of the same shot, so that one integration step jumps from before
    the last record distance to beyond the loop bound range + min_step (possible whenever the ground advance of a step
    exceeds min_step, i.e. with a tail-wind component AT THE END of the range, whatever the earlier segments are)."""
    from pbv import integ
    import py_ballisticcalc as m
    scs = []
    for i in range(n):
        p = shots.gen_shot(rng, winds=0, look=0.0)
        p["mv_fps"] = rng.choice([420.0, 900.0, 2600.0])
        tail = [rng.choice([15.0, 44.0, 120.0]), rng.choice([0.0, 10.0, 350.0]), 1e8]
        kind = i % 4
        if kind == 0:
            p["winds"] = [tail]
        elif kind == 1:        # head wind first, tail wind later
            p["winds"] = [[rng.choice([15.0, 44.0]), 180.0, rng.choice([60.0, 200.0])], tail]
        elif kind == 2:        # cross wind from the right first, then tail
            p["winds"] = [[15.0, 270.0, rng.choice([60.0, 200.0])], tail]
        else:                  # calm first, then tail; given in reverse order
            p["winds"] = [tail, [0.0, 0.0, 150.0]]
        ms = rng.choice([1.0, 2.0])
        cfg = {"max_calc_step_size_feet": ms}
        core.reset_world()
        shot = shots.build_shot(p)
        calc = shots.build_calc(cfg)
        rec = integ.Recorder().install()
        try:
            calc.fire(shot, m.Unit.Foot(900.0), m.Unit.Foot(450.0))
        except m.RangeError:
            pass
        finally:
            rec.remove()
        its = rec.calls[-1]["iters"]
        min_step = ms / 2.0
        cands = [(a["pre_r"].x, b["pre_r"].x) for a, b in zip(its, its[1:]) if a["pre_r"].x > 300.0 and b["pre_r"].x - a["pre_r"].x > min_step * 1.02]
        if not cands:
            continue
        if i % 5 == 0:
            # no step given (one tenth of the range): the statement demands 11 rows.  Place the range so that the solver's
            # accumulated sum of ten steps ends a rounding error ABOVE the range (then "a record distance within the
            # range is still owed" must not be decided by an exact comparison with the range)
            found = None
            for x0, x1 in rng.sample(cands, min(len(cands), 40)):
                for j in range(1, 20):
                    R = round(x0 + (x1 - min_step - x0) * j / 20.0, 5)
                    if not (x0 < R and x1 > R + min_step):
                        continue
                    maxr = m.Unit.Foot(R) >> m.Unit.Foot
                    st = m.Unit.Inch(m.Unit.Foot(R).raw_value / 10.0) >> m.Unit.Foot
                    acc = 0.0
                    for _ in range(10):
                        acc += st
                    if acc > maxr:
                        found = R
                        break
                if found:
                    break
            if found:
                scs.append({"shot": p, "cfg": cfg, "tid": start_tid + i, "kind": "adversarial_range", "range_ft": found, "unit": "Foot",
                            "step_ft": None, "extra": False, "sum_above": True})
                continue
        x0, x1 = cands[rng.randrange(len(cands))]
        nn = rng.choice([3, 10])
        # x0 < R and x1 > R + min_step, with a step that divides R EXACTLY in floats (step on a 2^-20 grid, R = nn * step)
        step = round((x0 + (x1 - min_step)) / 2.0 / nn * 2 ** 20) / 2 ** 20
        R = step * nn
        if not (x0 < R and x1 > R + min_step):
            continue
        scs.append({"shot": p, "cfg": cfg, "tid": start_tid + i, "kind": "adversarial_range", "range_ft": R, "unit": "Foot",
                    "step_ft": step if i % 5 else None, "extra": False})
    return scs


def event_aligned_cards(rng: random.Random, n: int, start_tid: int):
    """Single-step cards (step = range: the muzzle row and the row at the range) whose range row is recorded in the very
    integration step in which the trajectory comes back through the sight line (located by a dry run with extra data): the row
    carries the event's flag bits as well - it is still the range row, and nothing is appended after it."""
    scs = []
    for i in range(n):
        p = shots.gen_shot(rng, winds=0, look=0.0)
        p["sight_in"] = rng.choice([1.5, 2.0, 3.0])
        p["mv_fps"] = rng.choice([2600.0, 2900.0])
        ms = rng.choice([1.0, 2.0])
        base = {"shot": p, "cfg": {"max_calc_step_size_feet": ms}, "tid": 0, "kind": "dry", "range_ft": 450.0, "unit": "Foot",
                "step_ft": 150.0, "extra": True, "zero_yd": 100}
        dry = scen.run_fire(base, 0)
        evs = [r for r in dry["rows"] if int(r.flag) & 2 and not int(r.flag) & 8]
        if not evs:
            continue
        xe = evs[0].distance.raw_value / 12.0
        R = xe - 0.3 * (ms / 2.0)
        scs.append(dict(base, tid=start_tid + i, kind="single_step_card_ending_in_the_event_step", range_ft=R, step_ft=R, extra=False))
    return scs


def apalache_inductive(chk: core.Check) -> None:
    """Unbounded design-level safety of the recorder (spec/RecorderInd.tla) as an inductive invariant with Apalache
    (thorough tier only, under a timeout; if Apalache stalls the TLC result on bounded ranges stands)."""
    import re
    import shutil
    import subprocess
    if shutil.which("apalache-mc") is None:
        chk.tlc_runs.append({"what": "Apalache RecorderInd", "result": "apalache-mc not available"})
        return
    src = (core.SPEC_DIR / "RecorderInd.tla").read_text()
    sdir = core.scratch()
    for S, A in ((7, 7), (3, 2), (100, 1)):
        name = f"RecorderInd_{S}_{A}"
        text = src.replace("MODULE RecorderInd", f"MODULE {name}").replace("S == 7 ", f"S == {S} ").replace("A == 7 ", f"A == {A} ")
        (sdir / f"{name}.tla").write_text(text)
        results = []
        for init, inv, length in (("Init", "IndInv", 0), ("InitInd", "IndInv", 1), ("InitInd", "NeverSkips", 0)):
            try:
                p = subprocess.run(["apalache-mc", "check", f"--init={init}", f"--inv={inv}", f"--length={length}",
                                    f"--out-dir={sdir}/apa_{name}", str(sdir / f"{name}.tla")], capture_output=True, text=True,
                                   timeout=300, cwd=str(sdir))
                out = p.stdout + p.stderr
                ok = "EXITCODE: OK" in out
                bad = "violat" in out.lower() and not ok
                results.append({"init": init, "inv": inv, "length": length, "ok": ok})
                if bad:
                    chk.violation("Design.RecorderInd." + inv, {"S": S, "A": A}, {"apalache": out[-2000:]})
            except subprocess.TimeoutExpired:
                results.append({"init": init, "inv": inv, "length": length, "ok": None, "note": "timeout"})
        chk.tlc_runs.append({"what": f"Apalache inductive invariant RecorderInd S={S} A={A}", "obligations": results})
        shutil.rmtree(sdir / f"apa_{name}", ignore_errors=True)


def run(chk: core.Check, replay=None) -> None:
    core.use_repo()
    thorough = chk.tier == "thorough"
    loopsuite.design(chk, "C03")
    if thorough:
        apalache_inductive(chk)
    lattice.replay(chk, "C03", thorough)          # exact spec -> code replay of whole fire() results
    behs = loopsuite.gen_behaviours(chk, 3000 if thorough else 400, chk.seed + 3)
    loopsuite.object_replay(chk, "C03", behs)
    rng = random.Random(chk.seed * 7 + 3)
    scs = scenarios(rng, 400 if thorough else 36, thorough)
    scs += adversarial(rng, 120 if thorough else 12, len(scs) + 1)
    scs += long_cards(rng, 40 if thorough else 4, 100000)
    scs += event_aligned_cards(rng, 12 if thorough else 3, 200000)
    outs = scen.run_batch(scs)
    for o in outs:
        sc, summ = o["sc"], o.get("summ", {})
        chk.count(1, ("shot", o["tid"]) if summ.get("n_rows", 0) >= 3 else None)
        if sc["kind"] == "long_card":
            chk.stratum("long_card_in_round_metric_numbers")
        if o["outcome"] == "ok":
            chk.stratum("done")
            if summ.get("max_adv_over_step", 0) and sc["kind"] in ("tail", "strongtail"):
                chk.stratum("tail_wind")
            if sc.get("step_ft") is None:
                chk.stratum("default_step")
            elif abs(sc["range_ft"] / sc["step_ft"] - round(sc["range_ft"] / sc["step_ft"])) > 1e-6:
                chk.stratum("non_dividing_step")
            else:
                chk.stratum("dividing_step")
            if sc.get("time_step"):
                chk.stratum("time_step")
            if sc["kind"] == "single_step_card_ending_in_the_event_step" and any(int(r.flag) & 2 and int(r.flag) & 8 for r in o["rows"]):
                chk.stratum("single_step_card_ending_in_the_event_step")
            if sc["kind"] == "adversarial_range":
                chk.stratum("adversarial_range_" + str(len(sc["shot"]["winds"])) + "_segments")
                if sc.get("sum_above"):
                    chk.stratum("adversarial_default_step_sum_of_steps_above_range")
        elif o["outcome"] not in ("RangeError",):
            if o["outcome"] == "timeout":
                continue    # C04's business
    loopsuite.validate(chk, "C03", outs)
    for o in outs[:3]:
        chk.sample({"scenario": o["sc"], "outcome": o["outcome"], "rows": len(o["rows"]), "projected_lines": o["summ"].get("lines"),
                    "first_lines": o["lines"][:3]})
    chk.sample({"tlc_behaviour": {k: v for k, v in behs[0].items() if k != "consts"}})
    chk.require_strata(["single_step_card_ending_in_the_event_step", "long_card_in_round_metric_numbers", "adversarial_default_step_sum_of_steps_above_range", "adversarial_range_1_segments", "adversarial_range_2_segments", "done", "tail_wind", "default_step", "non_dividing_step", "dividing_step", "time_step",
                        "obj_flag_R", "obj_interpolated_row"])
    chk.exhaustive = False
    chk.rule.append("design: Integrator.tla exhaustively on the listed constant sets; spec->code: distinct TLC-simulated controller "
                    "behaviours replayed into the real _TrajectoryDataFilter; code->spec: seeded real shots (head/tail/cross/multi "
                    "winds, strong tail winds on slow projectiles, dividing / non-dividing / default / unit-bearing steps, time steps) "
                    "validated by Trace_Integrator; non-trivial = a call with >= 3 rows or a behaviour with >= 3 iterations")
    chk.assumptions += ["threshold predicates of the projection carry a relative 1e-10 band (either reaction accepted inside it)",
                        "end-of-run clauses apply when the trace shows forward motion, ground advance <= record step and no RangeError"]
