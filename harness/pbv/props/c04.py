"""C04 - every call terminates, and an incomplete trajectory is reported truthfully."""
from __future__ import annotations

import copy
import math
import random

from pbv import core, lattice, loopsuite, scen, shots


def scenarios(rng: random.Random, n: int, thorough: bool):
    scs = []
    for i in range(n):
        mode = ["vertical", "downward", "slow", "zero_velocity", "high_station", "beyond_reach", "drop_limit", "alt_limit",
                "vel_limit", "simultaneous", "start_below_floor", "vacuum_lob"][i % 12]
        p = shots.gen_shot(rng, winds=rng.choice([0, 1]), look=0.0)
        lim = {}
        rng_ft = rng.choice([900.0, 3000.0])
        if mode == "vertical":
            p["look_deg"] = rng.choice([90.0, 89.0, 75.0])
            p["mv_fps"] = rng.choice([200.0, 800.0])
            lim = {"cMaximumDrop": rng.choice([-50.0, -500.0])}
            if i % 2 == 0:
                # the velocity limit switched off with a NEGATIVE value: no speed is below it, the shot passes its apex (speed near 0)
                # and ends on the drop limit
                lim["cMinimumVelocity"] = rng.choice([-10.0, -1.0])
        elif mode == "downward":
            p["look_deg"] = rng.choice([-80.0, -45.0])
            p["alt_ft"] = 3000.0
            lim = {"cMinimumAltitude": rng.choice([2500.0, 2990.0])}
        elif mode == "slow":
            p["mv_fps"] = rng.choice([10.0, 40.0, 60.0, 120.0])
            lim = {"cMinimumVelocity": rng.choice([0.0, 50.0]), "cMaximumDrop": -30.0}
        elif mode == "zero_velocity":
            p["mv_fps"] = 0.0
            lim = rng.choice([{}, {"cMinimumVelocity": 0.0, "cMaximumDrop": -20.0}])
        elif mode == "high_station":
            p["alt_ft"] = rng.choice([8000.0, 12000.0])
            lim = {"cMinimumAltitude": p["alt_ft"] - rng.choice([3.0, 40.0])}
        elif mode == "beyond_reach":
            rng_ft = 60000.0
            p["rel_rad"] = math.radians(rng.choice([1.0, 10.0]))
        elif mode == "start_below_floor":
            # the launch point itself is already beyond a floor limit and the barrel points upward
            p["rel_rad"] = math.radians(rng.choice([0.5, 3.0, 10.0]))
            if rng.random() < 0.5:
                p["alt_ft"] = rng.choice([-150.0, -400.0, 20.0])
                lim = {"cMinimumAltitude": p["alt_ft"] + rng.choice([5.0, 130.0]), "cMinimumVelocity": 0.0}
            else:
                p["sight_in"] = 3.0
                lim = {"cMaximumDrop": -0.1}
        elif mode == "vacuum_lob":
            # no air at all (the Vacuum atmosphere), a lob that leaves the neighbourhood of the station altitude: within reach
            # (returns) or not (stopped by the drop / altitude floor) - finite inputs, downward gravity: it ends one way or the other
            p["vacuum"] = True
            p["winds"] = []
            p["mv_fps"] = rng.choice([300.0, 600.0])
            p["rel_rad"] = math.radians(rng.choice([30.0, 45.0, 60.0]))
            rng_ft = rng.choice([1500.0, 60000.0])
            lim = rng.choice([{}, {"cMaximumDrop": -200.0}, {"cMinimumAltitude": p["alt_ft"] - 100.0}])
        elif mode == "drop_limit":
            lim = {"cMaximumDrop": rng.choice([0.0, -1.0, -5.5, -100.0])}
        elif mode == "alt_limit":
            lim = {"cMinimumAltitude": p["alt_ft"] - rng.choice([0.5, 6.0, 100.0])}
        elif mode == "vel_limit":
            lim = {"cMinimumVelocity": p["mv_fps"] * rng.choice([0.5, 0.8, 0.97])}
            rng_ft = 6000.0
        cfg = {"max_calc_step_size_feet": rng.choice([1.0, 2.0, 5.0]), **lim}
        if mode == "simultaneous":
            # several limits first violated in the SAME integration step (precedence Vel > Drop > Alt): a dry run picks a
            # step and the limits are placed between its pre- and post-state
            p["mv_fps"] = rng.choice([400.0, 900.0, 2500.0])
            p["rel_rad"] = -0.01
            lim = simultaneous_limits(rng, p, cfg, rng_ft)
            cfg.update(lim)
        if thorough and rng.random() < 0.2:
            cfg.pop("max_calc_step_size_feet")
        scs.append({"shot": p, "cfg": cfg, "tid": 0, "mode": mode, "range_ft": rng_ft, "unit": "Foot",
                    # steps that divide the range, steps that do not (no record distance between where the projectile stops and
                    # the range), and a step beyond the range (two rows: muzzle and terminal / closing row)
                    "step_ft": rng_ft / rng.choice([5, 20, 3.7, 1.6, 0.4]), "extra": rng.random() < 0.4, "watchdog_s": 300,
                    **({"time_step": 0.2} if mode in ("vertical",) else {})})
    return scs


def limits_after_failed_requests(chk):
    """The limits a range error is judged by are those of THIS calculator's configuration - also after requests on the same
    calculator that failed: a zeroing far beyond reach (RangeError out of a trial shot), a fire that raised.  A calculator whose
    altitude floor / drop limit / velocity limit really binds fires, is asked for an impossible zero, and fires again: the second
    result is the first one, every earlier row within the configured limits, the reason the configured limit."""
    import py_ballisticcalc as m
    U = m.Unit
    for name, cfg, alt, limit_ok in (
            ("altitude floor", {"cMinimumAltitude": 0.0, "max_calc_step_size_feet": 2.0}, 300.0, lambda r, a: a + (r.height >> U.Foot) >= 0.0 - 1e-6),
            ("drop limit", {"cMaximumDrop": -40.0, "max_calc_step_size_feet": 2.0}, 0.0, lambda r, a: (r.height >> U.Foot) >= -40.0 - 1e-6),
            ("velocity limit", {"cMinimumVelocity": 1500.0, "max_calc_step_size_feet": 2.0}, 0.0, lambda r, a: (r.velocity >> U.FPS) >= 1500.0 - 1e-6)):
        core.reset_world()
        calc = m.Calculator(_config=dict(cfg))
        mk = lambda: m.Shot(m.Weapon(U.Inch(2)), m.Ammo(m.DragModel(0.25, m.TableG7), U.FPS(2700)), atmo=m.Atmo(U.Foot(alt), U.InHg(29.0), U.Fahrenheit(59), 0))

        def fire(c):
            try:
                return ("ok", None, [scen.row_fp(r) for r in c.fire(mk(), U.Yard(3000), U.Yard(100)).trajectory], None)
            except m.RangeError as e:
                return ("RangeError", e.reason, [scen.row_fp(r) for r in e.incomplete_trajectory], e.incomplete_trajectory)
        first = fire(calc)
        failed = []
        for req in (lambda: calc.set_weapon_zero(mk(), U.Yard(6000)), lambda: calc.barrel_elevation_for_target(mk(), U.Yard(9000)),
                    lambda: calc.fire(mk(), U.Yard(20000), U.Yard(5000))):
            try:
                req()
                failed.append("returned")
            except Exception as e:  # noqa
                failed.append(type(e).__name__)
        second = fire(calc)
        fresh = fire(m.Calculator(_config=dict(cfg)))
        chk.count(1, ("limits-after-failed-requests", name))
        chk.stratum("limits_after_failed_requests")
        k = {"source": "history", "limit": name}
        if second[:3] != first[:3] or second[:3] != fresh[:3]:
            chk.violation("C04.LimitsChangedByFailedRequests", k, {"failed_requests": failed, "first": first[:2] + (len(first[2]),),
                                                                   "second": second[:2] + (len(second[2]),), "fresh": fresh[:2] + (len(fresh[2]),)})
        if second[3]:
            bad = [i for i, r in enumerate(second[3][1:-1], 1) if not limit_ok(r, alt)]
            if bad:
                chk.violation("C04.EarlierRowsRespectLimits", k, {"failed_requests": failed, "rows_beyond_the_limit": bad[:5], "reason": second[1]})
    core.reset_world()


def simultaneous_limits(rng, p, cfg, rng_ft):
    from pbv import integ
    import py_ballisticcalc as m
    core.reset_world()
    shot = shots.build_shot(p)
    calc = shots.build_calc({**cfg, "cMinimumVelocity": 0.0, "cMaximumDrop": -1e6, "cMinimumAltitude": -1e6})
    rec = integ.Recorder().install()
    try:
        calc.fire(shot, m.Unit.Foot(rng_ft), m.Unit.Foot(rng_ft / 4))
    except m.RangeError:
        pass
    finally:
        rec.remove()
    its = rec.calls[-1]["iters"]
    j = rng.randrange(len(its) // 3, max(len(its) // 3 + 1, len(its) - 2))
    pre, post = its[j], its[j]
    v0, v1 = its[j]["pre_v"].magnitude(), its[j]["post_v"].magnitude()
    y0, y1 = its[j]["pre_r"].y, its[j]["post_r"].y
    which = rng.choice([("Vel", "Drop", "Alt"), ("Vel", "Drop"), ("Vel", "Alt"), ("Drop", "Alt")])
    lim = {}
    if v1 < v0 and y1 < y0:
        if "Vel" in which:
            lim["cMinimumVelocity"] = (v0 + v1) / 2
        if "Drop" in which:
            lim["cMaximumDrop"] = (y0 + y1) / 2
        if "Alt" in which:
            lim["cMinimumAltitude"] = p["alt_ft"] + (y0 + y1) / 2
    return lim


RELAX = {"Minimum velocity reached": ("cMinimumVelocity", lambda v: v * 0.5 - 1.0),
         "Maximum drop reached": ("cMaximumDrop", lambda v: v * 3.0 - 200.0),
         "Minimum altitude reached": ("cMinimumAltitude", lambda v: v - 600.0 - abs(v))}
DEFAULTS = {"cMinimumVelocity": 50.0, "cMaximumDrop": -15000.0, "cMinimumAltitude": -1410.748}


def run(chk: core.Check, replay=None) -> None:
    core.use_repo()
    thorough = chk.tier == "thorough"
    loopsuite.design(chk, "C04")
    lattice.replay(chk, "C04", thorough)          # exact spec -> code replay of whole fire() results
    rng = random.Random(chk.seed * 19 + 4)
    scs = scenarios(rng, 168 if thorough else 24, thorough)
    outs, pairs = [], []
    tid = 0
    for sc in scs:
        tid += 1
        sc["tid"] = tid
        a = scen.run_fire(sc, tid)
        outs.append(a)
        chk.count(1, ("shot", tid) if len(a["rows"]) >= 3 else None)
        chk.stratum("mode_" + sc["mode"])
        if (sc.get("cfg") or {}).get("cMinimumVelocity", 0) < 0:
            chk.stratum("negative_velocity_limit")
        pairs.append({"tid": tid, "ev": "Pair", "clause": "C04.Terminates", "ok": a["outcome"] != "timeout"})
        if a["outcome"] not in ("ok", "RangeError", "timeout"):
            pairs.append({"tid": tid, "ev": "Pair", "clause": "C04.UnexpectedException", "ok": False})
            a["pair_info"] = a.get("exc_text")
        if a["outcome"] != "RangeError":
            if a["outcome"] == "ok":
                chk.stratum("completed")
            continue
        # strata by what the SPEC side sees violated after the last step (not by the reason the code reports)
        last_iter = [l for l in a["lines"] if l["ev"] == "Iter"][-1]
        for nm in last_iter["violLo"]:
            chk.stratum("limit_" + nm)
        if len(last_iter["violLo"]) >= 2:
            chk.stratum("several_limits_in_one_step")
        # ---- (B) the same shot with the limit that fired relaxed: earlier rows must be bit-identical
        if a["reason"] not in RELAX:
            # not one of the three documented reasons (the monitor's Reason clauses report it as well)
            pairs.append({"tid": tid, "ev": "Pair", "clause": "C04.ReasonNotOneOfTheThreeLimits", "ok": False})
            a["pair_info"] = repr(a["reason"])
            continue
        name, relax = RELAX[a["reason"]]
        sc2 = copy.deepcopy(sc)
        cur = sc2["cfg"].get(name, DEFAULTS[name])
        sc2["cfg"][name] = relax(cur)
        tid += 1
        sc2["tid"] = tid
        b = scen.run_fire(sc2, tid)
        outs.append(b)
        na = len(a["rows"])
        same = len(b["rows"]) >= na - 1 and all(scen.row_fp(x) == scen.row_fp(y) for x, y in zip(a["rows"][:na - 1], b["rows"][:na - 1]))
        pairs.append({"tid": tid, "ev": "Pair", "clause": "C04.EarlierRowsUnperturbed", "ok": bool(same)})
        pairs.append({"tid": tid, "ev": "Pair", "clause": "C04.Terminates", "ok": b["outcome"] != "timeout"})
        if na >= 3:
            chk.stratum("paired_with_relaxed_limit")
    limits_after_failed_requests(chk)
    loopsuite.validate(chk, "C04", outs, pairs)
    o = next((x for x in outs if x["outcome"] == "RangeError"), outs[0])
    chk.sample({"scenario": o["sc"], "outcome": o["outcome"], "reason": o.get("reason"), "tail_lines": o["lines"][-3:]})
    chk.require_strata(["limit_Vel", "limit_Drop", "limit_Alt", "completed", "paired_with_relaxed_limit", "mode_vertical",
                        "mode_zero_velocity", "mode_beyond_reach", "mode_start_below_floor", "mode_vacuum_lob", "negative_velocity_limit", "limits_after_failed_requests", "several_limits_in_one_step"])
    chk.exhaustive = False
    chk.rule.append("design: Integrator.tla C04_* with every subset of violated limits per step and liveness under the gravity assumption; "
                    "code->spec: seeded real shots (vertical, downward, slow, zero-velocity, high station, beyond reach, each limit, "
                    "several limits at once) run under a wall-clock watchdog, validated by Trace_Integrator, each RangeError paired with "
                    "the same shot with the fired limit relaxed; non-trivial = a call with >= 3 rows")
    chk.assumptions += ["limit predicates carry a 1e-10 relative band", "termination = returns or raises within the 300 s watchdog",
                        "'without the limit' = the limit that fired relaxed by a margin (the fully unlimited vertical shot never ends)"]
