"""C06 - unit conversions agree with the SI definitions and invert.

D   : UnitAlgebra.tla - the SI definition table (exact factored rationals), conversion chains of length
      <= MaxChain: path independence and round-trip identity of the exact maps; table sanity.
S->C: TLC exports the table and every ordered pair (287) and triple (2267) of one dimension; for each the
      real `Unit.u(x) >> Unit.v` (and the other conversion spellings) is compared with the exact map on a
      magnitude set (0, +-1, +-3, decades, seeded mantissas; angles within one turn).
"""
from __future__ import annotations

import math
import random
from fractions import Fraction

from pbv import core, impl, units as UA

REL = 1e-6          # the statement's tolerance for agreement with the SI definition
ULPS_RT = 16        # "a few ulps" for round trips / composition (each direction is <= 4 float operations)


# exactly one full turn, in the units in which that is a round number whose radian value is computed exactly
FULL_TURN = {"Degree": [360.0, 360], "Mil": [6400.0], "Thousandth": [6000.0], "OClock": [12.0]}


def magnitudes(rng: random.Random, n_rand: int):
    base = [0.0, 1.0, -1.0, 3.0, -3.0, 0, 1, -1, 3, 7, 12, -12, 100]      # plain ints too: the constructors accept int or float
    for e in range(-9, 10, 3 if n_rand < 50 else 1):
        base += [10.0 ** e, -(10.0 ** e)]
    for _ in range(n_rand):
        base.append(rng.uniform(1, 10) * 10.0 ** rng.randint(-9, 9) * rng.choice([1, -1]))
    return base


def in_domain(tab, u, v, x, w=None):
    """angles within one turn; tangent-based units only for |angle| <= 0.5 rad"""
    if tab[u]["dim"] != "angular":
        return True
    rad = float(UA.to_si(u, x))
    lim = 2 * math.pi * (1 + 1e-12)     # "within one turn", the full turn itself included
    if any(tab[n]["kind"] == "atan" for n in (u, v, w) if n):
        lim = 0.5
    return abs(rad) <= lim


def ulp_of(*vals):
    return math.ulp(max(abs(float(v)) for v in vals) or 5e-324)


def spellings(m, U, V, x):
    """all public ways to express x[U] in V"""
    return {
        ">>": lambda: U(x) >> V,
        "get_in": lambda: U(x).get_in(V),
        "convert.unit_value": lambda: U(x).convert(V).unit_value,
        "<<.unit_value": lambda: (U(x) << V).unit_value,
        "Unit(q).unit_value": lambda: V(U(x)).unit_value,
        # the same object looked at BEFORE it is converted in place (its number read, printed), then converted, then read
        "read,<<,read": lambda: _looked_at(U(x)).__lshift__(V).unit_value,
        "read,convert,read": lambda: _looked_at(U(x)).convert(V).unit_value,
        "read,Unit(q),read": lambda: V(_looked_at(U(x))).unit_value,
        # the dimension's own conversion methods, called on ANOTHER quantity of the dimension (an instance used as converter)
        "other.from_raw(other.to_raw(x, U), V)": lambda: (lambda o_: o_.from_raw(o_.to_raw(x, U), V))(U(3.25)),
        "other.to_raw / q.from_raw": lambda: (lambda o_: V(1.75).from_raw(o_.to_raw(x, U), V))(V(7.5)),
    }


def _looked_at(q):
    _ = (q.unit_value, str(q), repr(q), q.raw_value, float(q), hash(q))
    return q


def run(chk: core.Check, replay=None) -> None:
    core.use_repo(hooks=False)
    core.reset_world()
    m = impl.pb()
    thorough = chk.tier == "thorough"
    chain = 4 if thorough else 3
    r = chk.tlc(core.run_tlc("UnitAlgebra", f"CONSTANTS MaxChain = {chain}\nSPECIFICATION Spec\nINVARIANT C06_PathIndependent\n"
                             "INVARIANT C06_RoundTrip\nINVARIANT C06_TableSane\n", coverage=True),
                f"UnitAlgebra chains <= {chain}")
    if not r.coverage.get("UnitAlgebra.Convert"):
        raise core.MachineryError("UnitAlgebra.Convert never taken")
    ex = UA.export()
    chk.tlc(ex["tlc"], "Gen_UnitAlgebra export (41 units, 287 pairs, 2267 triples)")
    tab = ex["units"]
    rng = random.Random(chk.seed * 1000003 + 6)
    mags = magnitudes(rng, 2000 if thorough else 12)
    mags_tri = magnitudes(rng, 60 if thorough else 2)
    # the enumeration of real units must be exactly the spec's table
    real_names = {u.name for u in m.Unit}
    if real_names != set(tab):
        chk.violation("C06.UnitSetDiffers", {"missing": sorted(set(tab) - real_names), "extra": sorted(real_names - set(tab))}, {})
    worst = {"si": 0.0, "rt": 0.0, "tri": 0.0}
    for p in ex["pairs"]:
        u, v = p["u"], p["v"]
        U, V = UA.unit_enum(u), UA.unit_enum(v)
        lin = tab[u]["kind"] == "lin" and tab[v]["kind"] == "lin"
        if lin and UA.pair_factor(p) != UA.scale(u) / UA.scale(v):
            raise core.MachineryError(f"pair factor export inconsistent for {u}->{v}")
        for x in mags + FULL_TURN.get(u, []):
            if not in_domain(tab, u, v, x):
                continue
            if x in FULL_TURN.get(u, []):
                chk.stratum("exactly_one_full_turn")
            want = UA.convert(u, v, x)
            wantf = float(want)
            key = {"u": u, "v": v}
            nontriv = (u, v, x) if (u != v and x != 0) else None
            for name, fn in spellings(m, U, V, x).items():
                o = impl.outcome(fn)
                chk.count(1, nontriv if name == ">>" else None)
                if o[0] != "ok":
                    chk.violation("C06.ConversionRaised", {**key, "how": name}, {"x": x, "exc": o[1]})
                    continue
                got = o[1]
                if tab[u]["kind"] == "aff":
                    # an affine map has no meaningful relative error near the zero of the target scale: the
                    # reference magnitude is the absolute temperature / the scale offsets (~500 degrees)
                    tol = REL * max(abs(wantf), abs(x), 500.0)
                else:
                    tol = REL * abs(wantf)
                err = abs(got - wantf)
                if err > tol and not (wantf == 0 and got == 0):
                    chk.violation("C06.DisagreesWithSI", {**key, "how": name},
                                  {"x": x, "got": got, "want": wantf, "rel_err": err / abs(wantf) if wantf else None})
                elif wantf:
                    worst["si"] = max(worst["si"], err / max(abs(wantf), 1e-300) if tab[u]["kind"] != "aff" else 0.0)
            # round trip u -> v -> u
            o = impl.outcome(lambda: V(U(x) >> V) >> U)
            chk.count(1)
            if o[0] == "ok":
                y = U(x) >> V
                raw_u = U(x).raw_value
                ul = ulp_of(x, *( [y, raw_u, 459.67] if tab[u]["kind"] == "aff" else [x]))
                if tab[u]["kind"] == "aff":
                    # the intermediate values of an affine map bound the absolute error
                    ul = max(ul, math.ulp(abs(y)), math.ulp(abs(raw_u)))
                d = abs(o[1] - x) / ul
                worst["rt"] = max(worst["rt"], d)
                if d > ULPS_RT:
                    chk.violation("C06.RoundTrip", key, {"x": x, "back": o[1], "ulps": d})
            else:
                chk.violation("C06.ConversionRaised", {**key, "how": "roundtrip"}, {"x": x, "exc": o[1]})
        chk.stratum(tab[u]["dim"])
        chk.stratum("kind_" + tab[u]["kind"])
    for (u, v, w) in ex["triples"]:
        U, V, W = UA.unit_enum(u), UA.unit_enum(v), UA.unit_enum(w)
        for x in mags_tri:
            if not in_domain(tab, u, v, x, w):
                continue
            try:
                y = U(x) >> V
                via = V(y) >> W
                direct = U(x) >> W
                # the same chain on ONE object converted in place, its number read at every stage
                q_ = _looked_at(U(x))
                q_ << V
                _looked_at(q_)
                q_ << W
                inplace = q_.unit_value
            except Exception as e:  # noqa
                chk.violation("C06.ConversionRaised", {"u": u, "v": v, "w": w, "how": "triple"}, {"x": x, "exc": type(e).__name__})
                continue
            chk.count(1, (u, v, w, x) if len({u, v, w}) == 3 and x else None)
            vals = [via, direct]
            if tab[u]["kind"] == "aff":
                vals += [y, x, 459.67, U(x).raw_value]
            ul = ulp_of(*vals)
            d = abs(via - direct) / ul
            worst["tri"] = max(worst["tri"], d)
            if d > ULPS_RT:
                chk.violation("C06.Composition", {"u": u, "v": v, "w": w}, {"x": x, "via": via, "direct": direct, "ulps": d})
            if inplace != direct:
                chk.violation("C06.Composition", {"u": u, "v": v, "w": w, "how": "one object converted in place"},
                              {"x": x, "inplace": inplace, "direct": direct})
        chk.stratum("triples")
    chk.traces += len(ex["pairs"]) + len(ex["triples"])
    chk.exhaustive = False   # unit pairs/triples are exhaustive, magnitudes are sampled
    chk.extra["pairs"], chk.extra["triples"] = len(ex["pairs"]), len(ex["triples"])
    chk.extra["magnitudes_per_pair"] = len(mags)
    chk.extra["worst_observed"] = {"rel_err_vs_SI(non-affine)": worst["si"], "roundtrip_ulps": worst["rt"], "composition_ulps": worst["tri"]}
    chk.sample({"pair": ex["pairs"][12], "exact_factor": str(UA.pair_factor(ex["pairs"][12]).limit_denominator(10**12))})
    chk.sample({"unit_definition": tab["PSI"]})
    chk.sample({"triple": ex["triples"][100]})
    chk.require_strata(["exactly_one_full_turn", "angular", "distance", "energy", "pressure", "temperature", "velocity", "weight", "triples",
                        "kind_lin", "kind_aff", "kind_atan"])
    chk.rule.append("all 287 ordered unit pairs and 2267 triples of one dimension (exhaustive, exported by TLC from UnitAlgebra) x a "
                    "magnitude set (0, +-1, +-3, decades 1e-9..1e9, seeded random mantissas) x 5 conversion spellings; "
                    "non-trivial = distinct units and non-zero magnitude")
    chk.assumptions += ["magnitudes are sampled, unit pairs/triples are exhaustive",
                        "angles restricted to one turn; tangent-based units to |angle| <= 0.5 rad",
                        f"'a few ulps' = {ULPS_RT} ulps of the largest value involved (for affine temperature maps: of the largest intermediate)",
                        "pi is the 50-digit rational in harness/pbv/units.py; every other number comes from the spec's table"]
