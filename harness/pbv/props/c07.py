"""C07 - preferred units only choose how bare numbers and output are read.

D   : Prefs.tla - the 15 slots under Assign / Defaults / LoadPreset, Coerce() for bare / explicit / omitted arguments,
      the parameter table of the public API.
S->C: Gen_Prefs histories replayed on the real PreferredUnits (all slots compared after every operation, presets against
      the spec's transcription); in the state each history ends in, (a) every parameter of the spec's table is given a
      bare number and the explicit quantity in the slot's unit - results must be bit-identical, zero included -, and
      (b) a corpus of explicit-unit computations must fingerprint exactly as under the default preferences.
"""
from __future__ import annotations

import hashlib
import random

from pbv import core, impl, scen, units as UA

CAND = ('[angular |-> {"Degree", "Radian", "MOA", "Mil"}, distance |-> {"Yard", "Meter", "Inch", "Foot"}, '
        'velocity |-> {"FPS", "MPS", "KMH"}, pressure |-> {"InHg", "hPa", "MmHg"}, '
        'temperature |-> {"Fahrenheit", "Celsius", "Kelvin"}, weight |-> {"Grain", "Gram", "Pound"}, energy |-> {"FootPound", "Joule"}]')


DIM_OF_SLOT = {"angular": "angular", "adjustment": "angular", "distance": "distance", "diameter": "distance", "length": "distance",
               "drop": "distance", "sight_height": "distance", "target_height": "distance", "twist": "distance",
               "velocity": "velocity", "pressure": "pressure", "temperature": "temperature", "weight": "weight", "ogw": "weight",
               "energy": "energy"}


def q_fp(q):
    return (float(q.raw_value).hex(), int(q.units)) if hasattr(q, "raw_value") else repr(q)


def fp_obj(*qs):
    return tuple(q_fp(q) for q in qs)


def param_builders(m):
    """parameter name -> function(arg) returning a fingerprint of what the library made of the argument"""
    U = m.Unit
    dm = lambda: m.DragModel(0.3, m.TableG7)
    weapon = lambda: m.Weapon(U.Inch(2))
    ammo = lambda: m.Ammo(dm(), U.FPS(2600))

    def hr():
        rows = [impl.make_row(time=float(k), distance=U.Foot(100.0 * k), target_drop=U.Inch(-1.0 * k * k), flag=8) for k in range(8)]
        return m.HitResult(m.Shot(weapon=weapon(), ammo=ammo()), rows, True)

    def ds(**kw):
        args = {"at_range": U.Foot(300), "target_height": U.Inch(10), "look_angle": U.Degree(0)}
        args.update(kw)
        d = hr().danger_space(args["at_range"], args["target_height"], args["look_angle"])
        return fp_obj(d.at_range.distance, d.begin.distance, d.end.distance, d.target_height, d.look_angle)

    def fire(**kw):
        c = m.Calculator(_config={"max_calc_step_size_feet": 5.0})
        args = {"trajectory_range": U.Foot(300), "trajectory_step": U.Foot(100)}
        args.update(kw)
        t = c.fire(m.Shot(weapon=weapon(), ammo=ammo()), args["trajectory_range"], args["trajectory_step"])
        return tuple(scen.row_fp(r) for r in t.trajectory)

    def zero(fn, a):
        c = m.Calculator(_config={"max_calc_step_size_feet": 5.0})
        s = m.Shot(weapon=weapon(), ammo=ammo())
        return fp_obj(getattr(c, fn)(s, a))

    def powder(a_v=None, a_t=None):
        am = m.Ammo(dm(), U.MPS(800), U.Celsius(15))
        am.calc_powder_sens(a_v if a_v is not None else U.MPS(820), a_t if a_t is not None else U.Celsius(30))
        return (float(am.temp_modifier).hex(),)

    def velt(a):
        am = m.Ammo(dm(), U.MPS(800), U.Celsius(15), 0.01, True)
        return fp_obj(am.get_velocity_for_temp(a))

    def gstep(a):
        m.reset_globals()
        try:
            m.set_global_max_calc_step_size(a)
            return (float(m.get_global_max_calc_step_size().raw_value).hex(),)
        finally:
            m.reset_globals()

    atmo_f = lambda a: fp_obj(a.altitude, a.pressure, a.temperature, a.powder_temp) + (float(a.density_ratio).hex(), float(a._mach).hex())
    return {
        "Atmo.altitude": lambda x: atmo_f(m.Atmo(altitude=x, pressure=U.InHg(29.0), temperature=U.Celsius(10))),
        "Atmo.pressure": lambda x: atmo_f(m.Atmo(altitude=U.Foot(100), pressure=x, temperature=U.Celsius(10))),
        "Atmo.temperature": lambda x: atmo_f(m.Atmo(altitude=U.Foot(100), pressure=U.InHg(29.0), temperature=x)),
        "Atmo.powder_t": lambda x: atmo_f(m.Atmo(altitude=U.Foot(100), pressure=U.InHg(29.0), temperature=U.Celsius(10), powder_t=x)),
        "Atmo.icao.altitude": lambda x: atmo_f(m.Atmo.icao(x)),
        "Vacuum.altitude": lambda x: atmo_f(m.Vacuum(x, U.Celsius(10))),
        "Vacuum.temperature": lambda x: atmo_f(m.Vacuum(U.Foot(10), x)),
        "Wind.velocity": lambda x: (lambda w: fp_obj(w.velocity, w.direction_from, w.until_distance))(m.Wind(x, U.Degree(90), U.Foot(100))),
        "Wind.direction_from": lambda x: (lambda w: fp_obj(w.velocity, w.direction_from, w.until_distance))(m.Wind(U.FPS(5), x, U.Foot(100))),
        "Wind.until_distance": lambda x: (lambda w: fp_obj(w.velocity, w.direction_from, w.until_distance))(m.Wind(U.FPS(5), U.Degree(90), x)),
        "Shot.look_angle": lambda x: (lambda s: fp_obj(s.look_angle, s.relative_angle, s.cant_angle))(m.Shot(weapon(), ammo(), look_angle=x)),
        "Shot.relative_angle": lambda x: (lambda s: fp_obj(s.look_angle, s.relative_angle, s.cant_angle))(m.Shot(weapon(), ammo(), relative_angle=x)),
        "Shot.cant_angle": lambda x: (lambda s: fp_obj(s.look_angle, s.relative_angle, s.cant_angle))(m.Shot(weapon(), ammo(), cant_angle=x)),
        "Weapon.sight_height": lambda x: (lambda w: fp_obj(w.sight_height, w.twist, w.zero_elevation))(m.Weapon(sight_height=x)),
        "Weapon.twist": lambda x: (lambda w: fp_obj(w.sight_height, w.twist, w.zero_elevation))(m.Weapon(twist=x)),
        "Weapon.zero_elevation": lambda x: (lambda w: fp_obj(w.sight_height, w.twist, w.zero_elevation))(m.Weapon(zero_elevation=x)),
        "Ammo.mv": lambda x: (lambda a: fp_obj(a.mv, a.powder_temp))(m.Ammo(dm(), x)),
        "Ammo.powder_temp": lambda x: (lambda a: fp_obj(a.mv, a.powder_temp))(m.Ammo(dm(), U.FPS(2600), x)),
        "DragModel.weight": lambda x: (lambda d: fp_obj(d.weight, d.diameter, d.length))(m.DragModel(0.3, m.TableG7, x, U.Inch(0.3), U.Inch(1))),
        "DragModel.diameter": lambda x: (lambda d: fp_obj(d.weight, d.diameter, d.length))(m.DragModel(0.3, m.TableG7, U.Grain(100), x, U.Inch(1))),
        "DragModel.length": lambda x: (lambda d: fp_obj(d.weight, d.diameter, d.length))(m.DragModel(0.3, m.TableG7, U.Grain(100), U.Inch(0.3), x)),
        "DragModelMultiBC.weight": lambda x: (lambda d: fp_obj(d.weight, d.diameter, d.length) + (float(d.BC).hex(),))(
            m.DragModelMultiBC([m.BCPoint(0.3, Mach=1.0)], m.TableG7, x, U.Inch(0.3), U.Inch(1))),
        "DragModelMultiBC.diameter": lambda x: (lambda d: fp_obj(d.weight, d.diameter, d.length) + (float(d.BC).hex(),))(
            m.DragModelMultiBC([m.BCPoint(0.3, Mach=1.0)], m.TableG7, U.Grain(100), x, U.Inch(1))),
        "DragModelMultiBC.length": lambda x: (lambda d: fp_obj(d.weight, d.diameter, d.length))(
            m.DragModelMultiBC([m.BCPoint(0.3, Mach=1.0)], m.TableG7, U.Grain(100), U.Inch(0.3), x)),
        "BCPoint.V": lambda x: (lambda b: (float(b.Mach).hex(),) + fp_obj(b.V))(m.BCPoint(0.3, V=x)),
        "Sight.scale_factor": lambda x: (lambda s: fp_obj(s.scale_factor, s.h_click_size, s.v_click_size))(m.Sight("FFP", x, U.Mil(0.1), U.Mil(0.1))),
        "Sight.h_click_size": lambda x: (lambda s: fp_obj(s.scale_factor, s.h_click_size, s.v_click_size))(m.Sight("FFP", U.Yard(100), x, U.Mil(0.1))),
        "Sight.v_click_size": lambda x: (lambda s: fp_obj(s.scale_factor, s.h_click_size, s.v_click_size))(m.Sight("FFP", U.Yard(100), U.Mil(0.1), x)),
        "Calculator.fire.trajectory_range": lambda x: fire(trajectory_range=x),
        "Calculator.fire.trajectory_step": lambda x: fire(trajectory_step=x),
        "Calculator.set_weapon_zero.zero_distance": lambda x: zero("set_weapon_zero", x),
        "Calculator.barrel_elevation_for_target.target_distance": lambda x: zero("barrel_elevation_for_target", x),
        "HitResult.danger_space.at_range": lambda x: ds(at_range=x),
        "HitResult.danger_space.target_height": lambda x: ds(target_height=x),
        "HitResult.danger_space.look_angle": lambda x: ds(look_angle=x),
        "Ammo.calc_powder_sens.other_velocity": lambda x: powder(a_v=x),
        "Ammo.calc_powder_sens.other_temperature": lambda x: powder(a_t=x),
        "Ammo.get_velocity_for_temp.current_temp": lambda x: velt(x),
        "set_global_max_calc_step_size.value": lambda x: gstep(x),
    }


# magnitudes that make sense for a parameter when expressed in ANY candidate unit of its slot
def magnitudes(param, zero_ok):
    pos = {"Calculator.fire.trajectory_range": [120.0], "Calculator.fire.trajectory_step": [40.0],
           "Calculator.set_weapon_zero.zero_distance": [60.0], "Calculator.barrel_elevation_for_target.target_distance": [60.0],
           "BCPoint.V": [300.0], "Sight.h_click_size": [0.1], "Sight.v_click_size": [0.1], "Ammo.mv": [900.0, 0.0],
           "Ammo.calc_powder_sens.other_velocity": [700.0, 800.0], "set_global_max_calc_step_size.value": [3.0, -2.0, 0.0],
           "Atmo.pressure": [700.0, 0.0], "HitResult.danger_space.at_range": [30.0, 0.0], "HitResult.danger_space.target_height": [2.0, 0.0],
           "Wind.until_distance": [50.0, 0.0], "Sight.scale_factor": [100.0, 0.0],
           # coincidences: bare numbers equal to the BASE-unit magnitude of another quantity of the same call (the baseline powder
           # temperature 15 C is 59 in the library's base unit, the air temperature 10 C is 50, 800 m/s is 800): a bare number is
           # that many of the PREFERRED unit - comparing it with a stored magnitude is comparing apples and pears
           "Ammo.get_velocity_for_temp.current_temp": [3.0, -2.0, 0.0, 59.0, 15.0],
           "Ammo.calc_powder_sens.other_temperature": [3.0, -2.0, 0.0, 59.0],
           "Atmo.powder_t": [3.0, -2.0, 0.0, 50.0], "Ammo.powder_temp": [3.0, -2.0, 0.0, 59.0]}
    if param in pos:
        return pos[param]
    out = [3.0, -2.0]
    if zero_ok:
        out.append(0.0)
    return out


def corpus_fp(m, tick=None):
    """fingerprint of the PHYSICAL results (raw magnitudes only: the unit a result is displayed in is the preferences' business).
    tick() is called between the constructions and computations: the interleaved mode changes the preferences there, so that
    the objects of one computation are built under DIFFERENT preference states (the statement quantifies over the settings,
    not over one setting held fixed for the whole session)"""
    U = m.Unit
    tick = tick or (lambda: None)
    h = hashlib.sha256()
    q_fp = lambda q: float(q.raw_value).hex()

    def add(x):
        h.update(repr(x).encode())
        tick()
    dm = m.DragModel(0.25, m.TableG7, U.Grain(168), U.Inch(0.308), U.Inch(1.22)); tick()
    sight = m.Sight("SFP", U.Yard(100), U.Mil(0.1), U.MOA(0.25)); tick()
    weapon = m.Weapon(U.Inch(2.5), U.Inch(11), sight=sight); tick()
    ammo = m.Ammo(dm, U.MPS(800), U.Celsius(15), 0.011, True); tick()
    atmo = m.Atmo(U.Meter(300), U.hPa(980), U.Celsius(5), 40, U.Celsius(-3)); tick()
    # four segments whose ends lie within a few percent of each other (and out of order): ordering them by anything but the
    # physical distance - the number in whatever unit each happens to be displayed in - reverses some pair
    winds = []
    for v, d, until in ((U.MPS(4), U.OClock(3), U.Meter(200)), (U.KMH(10), U.Degree(200), U.Yard(600)),
                        (U.MPH(7), U.Degree(70), U.Foot(690)), (U.FPS(12), U.Degree(300), U.Yard(225))):
        winds.append(m.Wind(v, d, until)); tick()
    shot = m.Shot(weapon, ammo, U.Degree(3), U.Mil(0.5), U.Degree(2), atmo, winds); tick()
    add([float(w.until_distance.raw_value).hex() for w in shot.winds])
    calc = m.Calculator(_config={"max_calc_step_size_feet": 3.0}); tick()
    add(q_fp(calc.set_weapon_zero(shot, U.Meter(100))))
    add(q_fp(calc.barrel_elevation_for_target(shot, U.Yard(250))))
    hr_extra = None
    for kw in ({}, {"extra_data": True}, {"time_step": 0.05}):
        hr = calc.fire(shot, U.Meter(500), U.Meter(50), **kw)
        add([scen.row_fp(r) for r in hr.trajectory])
        if kw.get("extra_data"):
            hr_extra = hr
    # requests WITHOUT a step (the default step is derived from the range inside the library) in ranges whose round trip through
    # another distance unit is not exact
    for rq in (U.Foot(1300), U.Foot(950), U.Yard(700), U.Meter(800)):
        add([scen.row_fp(r) for r in calc.fire(shot, rq).trajectory])
    d = hr_extra.danger_space(U.Meter(300), U.Centimeter(50), U.Degree(3))
    add([scen.row_fp(d.begin), scen.row_fp(d.end), scen.row_fp(d.at_range)])
    row = hr_extra.get_at_distance(U.Meter(400))
    clicks = weapon.sight.get_trajectory_adjustment(row, 12.0)
    add((float(clicks.vertical).hex(), float(clicks.horizontal).hex()))
    # after the caller has asked the sight for clicks for EVERY row (a call that hands each row's quantities to the library): rows
    # looked up just past a recorded distance (a few hundredths of a unit: below one display digit of yards or metres, above one of
    # feet) - the first row at or beyond the query by magnitude
    for r_ in hr_extra.trajectory:
        if r_.distance.raw_value > 0:        # (a second-focal-plane sight has no click size at the muzzle)
            weapon.sight.get_trajectory_adjustment(r_, 12.0); tick()
    add(scen.row_fp(hr_extra.get_at_distance(U.Meter(250.03))))
    add(scen.row_fp(hr_extra.get_at_distance(U.Yard(218.76))))
    d2 = hr_extra.danger_space(U.Meter(350.04), U.Centimeter(40), U.Degree(3))
    add([scen.row_fp(d2.begin), scen.row_fp(d2.end), scen.row_fp(d2.at_range)])
    add(q_fp(ammo.get_velocity_for_temp(U.Fahrenheit(10))))
    pts = []
    for bc, v in ((0.275, U.MPS(800)), (0.255, U.FPS(1700)), (0.265, U.KMH(2300))):
        pts.append(m.BCPoint(bc, V=v)); tick()
    mbc = m.DragModelMultiBC(pts, m.TableG7, U.Gram(11), U.Millimeter(7.8), U.Millimeter(31))
    add([(float(p.Mach).hex(), float(p.CD).hex()) for p in mbc.drag_table] + [float(mbc.BC).hex()])
    add(q_fp(m.Atmo.icao(U.Meter(1500)).pressure))
    # every field of every object built from explicit quantities (raw magnitudes), and a shot fired with the multi-BC model
    for o in (dm, mbc, weapon, ammo, atmo, shot, weapon.sight):
        add(impl.deep_fp(o))
    w2 = m.Weapon(U.Centimeter(6), U.Centimeter(25)); tick()
    a2 = m.Ammo(mbc, U.MPS(790)); tick()
    shot2 = m.Shot(w2, a2, U.Degree(0), atmo=atmo); tick()
    shot2.winds = [m.Wind(U.MPS(3), U.Degree(90), U.Meter(400)), m.Wind(U.MPS(5), U.Degree(270), U.Yard(430))]; tick()
    add([scen.row_fp(r) for r in calc.fire(shot2, U.Meter(300), U.Meter(100)).trajectory])
    # quantities that are instances of a caller's SUBCLASS of a dimension class (a Distance with its own repr, say) carry their
    # unit just the same
    Range = type("Range", (m.Distance,), {"__repr__": lambda self: "Range(%r)" % (self.raw_value,)})
    Speed = type("Speed", (m.Velocity,), {})
    def rows_or_error(fn):
        # (whatever a tree makes of such an argument - rows or an exception - is part of the fingerprint: it must not depend on the
        #  preferences in force)
        try:
            return [scen.row_fp(r) for r in fn().trajectory]
        except Exception as e:  # noqa
            return "raised " + type(e).__name__
    add(rows_or_error(lambda: calc.fire(shot2, Range(400.0, U.Meter), Range(100.0, U.Meter))))
    a3 = m.Ammo(mbc, Speed(800.0, U.MPS)); tick()
    shot4 = m.Shot(m.Weapon(Range(6.0, U.Centimeter), Range(25.0, U.Centimeter)), a3, U.Degree(0), atmo=atmo); tick()
    add(rows_or_error(lambda: calc.fire(shot4, U.Meter(300), U.Meter(100))))
    # ... and mean the same as the plain quantity
    add(rows_or_error(lambda: calc.fire(shot2, Range(400.0, U.Meter), Range(100.0, U.Meter)))
        == rows_or_error(lambda: calc.fire(shot2, U.Meter(400.0), U.Meter(100.0))))
    # winds given NO until-distance: they end at the library's own limit, which is stated in feet (`max_distance_feet`, the
    # default or a custom one) - not in whatever unit happens to be preferred
    w_lim = m.Wind(U.MPS(5), U.Degree(90), max_distance_feet=1200); tick()
    w_def = m.Wind(U.MPS(2), U.Degree(250)); tick()
    shot3 = m.Shot(w2, a2, U.Degree(0), atmo=atmo, winds=[w_def, w_lim]); tick()
    add([float(w.until_distance.raw_value).hex() for w in shot3.winds])
    add([scen.row_fp(r) for r in calc.fire(shot3, U.Meter(800), U.Meter(200)).trajectory])
    return h.hexdigest()


def apply_op(m, op, alt):
    a = op["a"]
    if a == "Assign":
        U = UA.unit_enum(op["unit"])
        if alt % 3 == 0:
            setattr(m.PreferredUnits, op["slot"], U)
        elif alt % 3 == 1:
            m.PreferredUnits.set(**{op["slot"]: op["unit"].lower() if alt % 2 else op["unit"]})
        else:
            m.PreferredUnits.set(**{op["slot"]: U})
    elif a == "Defaults":
        m.PreferredUnits.defaults()
    elif a == "LoadPreset":
        {"imperial": m.loadImperialUnits, "metric": m.loadMetricUnits, "mixed": m.loadMixedUnits}[op["unit"]]()


def run(chk: core.Check, replay=None) -> None:
    core.use_repo(hooks=False)
    core.reset_world()
    m = impl.pb()
    thorough = chk.tier == "thorough"
    cfg, defs = core.consts(dict(MaxOps=3 if thorough else 2, Candidates=CAND))
    r = chk.tlc(core.run_tlc("Prefs", cfg + "SPECIFICATION Spec\nINVARIANT C07_BareIsPreferred\nINVARIANT C07_ExplicitIgnoresPrefs\n"
                             "INVARIANT C07_SlotsWellTyped\nINVARIANT C07_ParamSlotsExist\n", defs=defs, coverage=True), "Prefs")
    for a in ("Assign", "ResetDefaults", "LoadPreset"):
        if not r.coverage.get(f"Prefs.{a}"):
            raise core.MachineryError(f"Prefs.{a} never taken")
    cfg, defs = core.consts(dict(MaxOps=5, Candidates=CAND))
    gen = core.run_tlc("Gen_Prefs", cfg + "SPECIFICATION GenSpec\nINVARIANT Emit\n", defs=defs, workers=1,
                       tags=["BEH", "PARAMS", "PRESETS"], simulate=f"num={60 if thorough else 6}", depth=6, seed=chk.seed + 7)
    behs = gen.out("BEH")
    params = gen.out("PARAMS")[0]
    rng = random.Random(chk.seed + 7)
    rng.shuffle(behs)
    # favour histories that load presets / reset (rare among the candidate successors)
    behs.sort(key=lambda b: -sum(1 for e in b if e["op"]["a"] != "Assign"))
    n_hist = 400 if thorough else 40
    behs = behs[: n_hist // 2] + behs[len(behs) // 2: len(behs) // 2 + n_hist // 2]
    chk.tlc_runs.append({"what": "Gen_Prefs -simulate", "behaviours": len(gen.out("BEH")), "replayed": len(behs)})
    builders = param_builders(m)
    missing = [p[0] for p in params if p[0] not in builders]
    if missing:
        raise core.MachineryError(f"no binding for parameters {missing}")
    core.reset_world()
    base_fp = corpus_fp(m)
    slots = list(m.PreferredUnits.__dataclass_fields__)
    for bi, b in enumerate(behs):
        core.reset_world()
        for step, e in enumerate(b):
            apply_op(m, e["op"], bi + step)
            chk.stratum("pref_" + e["op"]["a"])
            chk.count(1)
            for s in slots:
                got = getattr(m.PreferredUnits, s)
                if not isinstance(got, m.Unit) or got.name != e["pref"][s]:
                    chk.violation("C07.SlotNotAsSpecified", {"op": e["op"]["a"], "slot": s},
                                  {"history": b, "step": step, "got": getattr(got, "name", repr(type(got))), "want": e["pref"][s]})
        final = b[-1]["pref"]
        # ---- (b) explicit computations: bit-for-bit independent of the preferences in force
        if bi % (1 if thorough else 2) == 0:
            o = impl.outcome(corpus_fp, m)
            chk.count(1, ("corpus", bi))
            chk.stratum("explicit_corpus")
            if o[0] != "ok":
                chk.violation("C07.ExplicitComputationRaised", {"source": "corpus"}, {"prefs": final, "exc": o[1], "text": str(o[2])[:200]})
            elif o[1] != base_fp:
                chk.violation("C07.ResultDependsOnPreferences", {"source": "corpus"}, {"prefs": final})
            # the same corpus while the history unfolds: the history's operations are applied one by one BETWEEN the
            # constructions and computations (cyclically, from the defaults)
            core.reset_world()
            tick_n = [0]

            def tick():
                apply_op(m, b[tick_n[0] % len(b)]["op"], bi + tick_n[0])
                tick_n[0] += 1
            o = impl.outcome(corpus_fp, m, tick)
            chk.count(1, ("corpus-interleaved", bi))
            chk.stratum("explicit_corpus_interleaved")
            if o[0] != "ok":
                chk.violation("C07.ExplicitComputationRaised", {"source": "corpus-interleaved"},
                              {"history": [e["op"] for e in b], "exc": o[1], "text": str(o[2])[:200]})
            elif o[1] != base_fp:
                chk.violation("C07.ResultDependsOnPreferences", {"source": "corpus-interleaved"}, {"history": [e["op"] for e in b]})
            # restore the history's final state
            for s in slots:
                setattr(m.PreferredUnits, s, UA.unit_enum(final[s]))
        # ---- (a) bare number == explicit quantity in the slot's current unit, for every parameter
        if bi % (2 if thorough else 4) == 0:
            for pname, slot, zero_ok in params:
                U = UA.unit_enum(final[slot])
                for n in magnitudes(pname, zero_ok):
                    if n == 0.0 and not zero_ok:
                        continue
                    ob = impl.outcome(builders[pname], n)
                    for s in slots:
                        setattr(m.PreferredUnits, s, UA.unit_enum(final[s]))
                    oe = impl.outcome(builders[pname], U(n))
                    for s in slots:
                        setattr(m.PreferredUnits, s, UA.unit_enum(final[s]))
                    chk.count(1, (pname, final[slot], n))
                    chk.stratum("bare_zero" if n == 0.0 else "bare_nonzero")
                    key = {"param": pname, "n": n, "unit": final[slot]}
                    if ob[0] != oe[0]:
                        chk.violation("C07.BareDiffersFromExplicit", key, {"bare": repr(ob[1])[:200], "explicit": repr(oe[1])[:200]})
                    elif ob[0] == "ok" and ob[1] != oe[1]:
                        chk.violation("C07.BareDiffersFromExplicit", key, {"bare": repr(ob[1])[:300], "explicit": repr(oe[1])[:300]})
                    elif ob[0] == "exc" and ob[1] != oe[1]:
                        chk.violation("C07.BareDiffersFromExplicit", key, {"bare_exc": ob[1], "explicit_exc": oe[1]})
        chk.traces += 1
    # fixed rotations applied between the constructions of the corpus (every history TLC could produce with these operations
    # is a behaviour of Prefs.tla; these make the interleaved mode independent of the seed): the presets in turn, and each
    # dimension's candidate units assigned to every slot of that dimension in turn
    rotations = [[{"a": "LoadPreset", "slot": "", "unit": p_} for p_ in order] + [{"a": "Defaults", "slot": "", "unit": ""}]
                 for order in (("imperial", "metric", "mixed"), ("metric", "imperial"), ("mixed", "metric", "imperial"))]
    for shift in range(3):
        rot = []
        for k in range(4):
            for s_ in slots:
                cands = [c for c in sorted(UA.dims()[DIM_OF_SLOT[s_]])]
                rot.append({"a": "Assign", "slot": s_, "unit": cands[(k * 5 + shift + len(rot)) % len(cands)]})
        rotations.append(rot)
    for ri, rot in enumerate(rotations):
        core.reset_world()
        tick_n = [0]

        def tick():
            # a whole block of assignments (all slots) per tick for the assignment rotations, one operation otherwise
            blk = len(slots) if rot[0]["a"] == "Assign" else 1
            for _ in range(blk):
                apply_op(m, rot[tick_n[0] % len(rot)], 0)
                tick_n[0] += 1
        o = impl.outcome(corpus_fp, m, tick)
        chk.count(1, ("corpus-rotation", ri))
        chk.stratum("explicit_corpus_rotation")
        if o[0] != "ok":
            chk.violation("C07.ExplicitComputationRaised", {"source": "corpus-rotation"}, {"rotation": rot[:8], "exc": o[1], "text": str(o[2])[:200]})
        elif o[1] != base_fp:
            chk.violation("C07.ResultDependsOnPreferences", {"source": "corpus-rotation"}, {"rotation": rot[:8]})
    core.reset_world()
    # presets as transcribed in the spec
    pres = gen.out("PRESETS")[0]
    for name, fn in (("defaults", m.PreferredUnits.defaults), ("imperial", m.loadImperialUnits), ("metric", m.loadMetricUnits), ("mixed", m.loadMixedUnits)):
        core.reset_world()
        fn()
        for s in slots:
            if getattr(m.PreferredUnits, s).name != pres[name][s]:
                chk.violation("C07.SlotNotAsSpecified", {"op": "LoadPreset", "slot": s, "preset": name}, {"got": getattr(m.PreferredUnits, s).name})
        chk.stratum("preset_" + name)
    core.reset_world()
    chk.sample({"history": behs[0]})
    chk.sample({"parameter_table_rows": params[:4]})
    chk.require_strata(["pref_Assign", "pref_Defaults", "pref_LoadPreset", "explicit_corpus", "explicit_corpus_interleaved", "explicit_corpus_rotation", "bare_zero", "bare_nonzero",
                        "preset_metric", "preset_mixed", "preset_imperial"])
    chk.exhaustive = False
    chk.rule.append("TLC-simulated histories of 5 preference operations (assign by attribute / by name / by Unit, defaults, the three "
                    "presets) replayed on the real PreferredUnits; in each final state all 39 parameters of the spec's table x "
                    "magnitudes (negative, zero, positive as applicable) compared bare vs explicit bit-for-bit, and a 14-result "
                    "explicit-unit corpus fingerprinted against the default-preference run; non-trivial = a (parameter, unit, "
                    "magnitude) triple or a corpus run")
    chk.assumptions += ["formatted()/in_def_units() output is excluded (reading output is what preferences are for)",
                        "zero is skipped where the table marks it meaningless (ranges, steps, click sizes, velocities of BC points)",
                        "danger_space.target_height is read in the 'distance' slot, as the code does"]
