"""C09 - drag used by the solver is faithful to the drag table and BC definition.

D   : DragLookup.tla - the table search, small-step, on every table shape x query; chosen piece admissible.
S->C: every Gen_DragLookup case (integer tables, CD_i = i^3 + 1) through the real calculate_curve +
      _calculate_by_curve_and_mach_list and TrajectoryCalc.drag_by_mach; the piece the value lies on is identified
      by exact rational evaluation and must be admissible.
C->S: shipped and seeded custom tables queried at/around every node and midpoint; Trace_DragLookup checks the same
      AdmissiblePieces operator and the boolean clauses; table identity against DragTablesGolden.
"""
from __future__ import annotations

import math
import random
from fractions import Fraction

from pbv import core, impl, shots, tables

CONST_REL = 1e-5     # the library writes the constant with 6 significant digits


def line(p0, p1, x):
    return p0[1] + (p1[1] - p0[1]) * (x - p0[0]) / (p1[0] - p0[0])


def parabola(p0, p1, p2, x):
    (x0, y0), (x1, y1), (x2, y2) = p0, p1, p2
    return (y0 * (x - x1) * (x - x2) / ((x0 - x1) * (x0 - x2)) + y1 * (x - x0) * (x - x2) / ((x1 - x0) * (x1 - x2))
            + y2 * (x - x0) * (x - x1) / ((x2 - x0) * (x2 - x1)))


EPS = 2.220446049250313e-16


def cond_tol(nodes, p, fx):
    """rounding allowance of evaluating piece p at fx in floating point: 16 eps x (|a| x^2 + |b| |x| + |c|) for the piece's
    exact monomial coefficients.  For the shipped tables this is ~1e-15 and irrelevant; for custom tables with nodes a
    thousandth of a Mach apart and large jumps the coefficients reach 1e6 and cancel - "equal to float rounding" then means
    rounding of THAT evaluation (false alarm of the fixed 1e-9 band at thorough seed 5, DESIGN 9.2)"""
    if p == 0:
        (x0, y0), (x1, y1) = nodes[0], nodes[1]
        b = (y1 - y0) / (x1 - x0)
        a, c = Fraction(0), y0 - b * x0
    else:
        (x0, y0), (x1, y1), (x2, y2) = nodes[p - 2], nodes[p - 1], nodes[p]
        d0, d1, d2 = (x0 - x1) * (x0 - x2), (x1 - x0) * (x1 - x2), (x2 - x0) * (x2 - x1)
        a = y0 / d0 + y1 / d1 + y2 / d2
        b = -(y0 * (x1 + x2) / d0 + y1 * (x0 + x2) / d1 + y2 * (x0 + x1) / d2)
        c = y0 * x1 * x2 / d0 + y1 * x0 * x2 / d1 + y2 * x0 * x1 / d2
    return 16 * EPS * float(abs(a) * fx * fx + abs(b) * abs(fx) + abs(c))


def pieces_matching(nodes, x, value, only=None):
    """ops-numbered pieces (0 = line through the first two nodes, m = parabola through 1-based nodes m-1,m,m+1)
    on which `value` lies at x (exact rational evaluation, 1e-9 relative)"""
    n = len(nodes)
    fx = Fraction(x)
    out = []
    cand = range(0, n) if only is None else only
    for p in cand:
        if p == 0:
            ex = line(nodes[0], nodes[1], fx)
        elif 2 <= p <= n - 1:
            ex = parabola(nodes[p - 2], nodes[p - 1], nodes[p], fx)
        else:
            continue
        if abs(value - float(ex)) <= 1e-9 * max(1.0, abs(float(ex))) + cond_tol(nodes, p, fx):
            out.append(p)
    return out


_LONG_USED = {}


def calc_for_model(m, dm):
    shot = m.Shot(weapon=m.Weapon(), ammo=m.Ammo(dm, m.Unit.FPS(2500)))
    calc = m.Calculator()
    calc._calc._init_trajectory(shot)
    return calc._calc


def make_calc_for(m, points, bc, dims=False, edited=False):
    """the solver object initialised for a model with this table.  edited=True: the model was first built - and USED, on a
    calculator that stays in service for all such tables - with other drag values; the caller then wrote the final values
    into the same data points (same list, same length) and uses the same calculator again: the drag the solver uses is
    that of the table the shot carries NOW"""
    first = [(a, b + 0.05) for a, b in points] if edited else points
    # a table entry is a dict with the keys 'Mach' and 'CD' - in whichever order (sorted-key JSON lists CD first), and
    # every third table is handed over as DragDataPoint objects
    _LONG_USED["n"] = _LONG_USED.get("n", 0) + 1
    spell = _LONG_USED["n"] % 3
    if spell == 0:
        tab = [{"Mach": a, "CD": b} for a, b in first]
    elif spell == 1:
        tab = [{"CD": b, "Mach": a} for a, b in first]
    else:
        tab = [m.DragDataPoint(a, b) for a, b in first]
    if dims:
        dm = m.DragModel(bc, tab, m.Unit.Grain(168), m.Unit.Inch(0.308), m.Unit.Inch(1.2))
    else:
        dm = m.DragModel(bc, tab)
    shot = m.Shot(weapon=m.Weapon(), ammo=m.Ammo(dm, m.Unit.FPS(2500)))
    if not edited:
        calc = m.Calculator()
        calc._calc._init_trajectory(shot)
        return calc._calc
    calc = _LONG_USED.setdefault("calc", m.Calculator())
    calc.fire(shot, m.Unit.Foot(30), m.Unit.Foot(10))
    for pnt, (a, b) in zip(dm.drag_table, points):
        pnt.CD = b
    calc._calc._init_trajectory(shot)
    return calc._calc


def replay_cases(chk, cases):
    m = impl.pb()
    from py_ballisticcalc.trajectory_calc._trajectory_calc import calculate_curve, _calculate_by_curve_and_mach_list
    cache = {}
    for c in cases:
        xs, q4, adm = c["xs"], c["q4"], set(c["adm"])
        key = tuple(xs)
        if key not in cache:
            pts = [(float(x), float(i ** 3 + 1)) for i, x in enumerate(xs)]
            dps = [m.DragDataPoint(a, b) for a, b in pts]
            cache[key] = (pts, [(Fraction(a), Fraction(b)) for a, b in pts], calculate_curve(dps), [a for a, _ in pts],
                          make_calc_for(m, pts, 0.5))
        pts, fpts, curve, ml, tc = cache[key]
        x = q4 / 4.0
        for entry, fn in (("curve+mach_list", lambda: _calculate_by_curve_and_mach_list(ml, curve, x)),
                          ("drag_by_mach", lambda: tc.drag_by_mach(x) * 0.5 / 2.08551e-04)):
            o = impl.outcome(fn)
            nontriv = (key, q4, entry) if 0 <= q4 <= 4 * xs[-1] else None
            chk.count(1, nontriv)
            k = {"entry": entry, "n": len(xs), "source": "integer-table"}
            if o[0] != "ok":
                chk.violation("C09.LookupRaised", k, {"case": c, "exc": o[1]})
                continue
            got = pieces_matching(fpts, x, o[1])
            if not (set(got) & adm):
                chk.violation("C09.PieceNotThroughNeighbours", k, {"case": c, "value": o[1], "on_pieces": got, "admissible": sorted(adm)})
            if q4 % 4 == 0 and (q4 // 4) in xs:
                i = xs.index(q4 // 4)
                chk.stratum("int_at_node")
                if abs(o[1] - pts[i][1]) > 1e-9 * pts[i][1]:
                    chk.violation("C09.NodeValueDiffers", k, {"case": c, "value": o[1], "tabulated": pts[i][1]})
        if q4 > 4 * xs[-1]:
            chk.stratum("int_beyond_table")
        if q4 % 2 == 0 and q4 % 4 != 0:
            chk.stratum("int_midpoint_or_half")
    chk.traces += len(cases)


def table_queries(rng, mach):
    """queries at and around every node and midpoint, and beyond the table"""
    qs = []
    for i, x in enumerate(mach):
        qs.append(x)
        if x > 0:
            qs += [math.nextafter(x, 0.0), x * (1 - 1e-9)]
        qs += [math.nextafter(x, math.inf), x + 1e-9 * max(x, 1e-3)]
        if i + 1 < len(mach):
            mid = (x + mach[i + 1]) / 2
            qs += [mid, math.nextafter(mid, 0.0), math.nextafter(mid, math.inf), x + (mach[i + 1] - x) * rng.random()]
    qs += [mach[-1] * 1.5, mach[-1] + 3.0]
    return qs


def real_traces(chk, rng, n_custom):
    m = impl.pb()
    lines, raw = [], {}
    tid = 0
    tabs = [(g["name"], [(p["Mach"], p["CD"]) for p in getattr(m, "Table" + g["name"])], True) for g in tables.golden()]
    for j in range(n_custom):
        n = rng.choice([3, 4, 5, 8, 20, 80])
        xs = sorted({round(rng.uniform(0, 5), 3) for _ in range(n)})
        while len(xs) < 3:
            xs.append(xs[-1] + 0.5)
        if rng.random() < 0.7:
            xs[0] = 0.0
        tabs.append((f"custom{j}", [(x, round(rng.uniform(0.1, 0.9), 4)) for x in xs], False))
    const = 0.076474 * math.pi / (8 * 144)        # standard air density x pi / (8 x 144)
    # models built by DragModelMultiBC (their table already carries the BC law; their BC is the sectional density when weight and
    # diameter are given, else 1): the solver must use THAT table and THAT BC
    U = m.Unit
    # The table the solver must realise is computed HERE from the statement (Cd of the source table x BC of the model / BC(M), BC(M)
    # the piecewise-linear interpolant of the given points, clamped outside them) - not read back from the model.
    def bc_at(knots, x):
        ks = sorted(knots)
        if x <= ks[0][0]:
            return Fraction(ks[0][1])
        if x >= ks[-1][0]:
            return Fraction(ks[-1][1])
        for (x0, b0), (x1, b1) in zip(ks, ks[1:]):
            if x0 <= x <= x1:
                return Fraction(b0) + (Fraction(b1) - Fraction(b0)) * (Fraction(x) - Fraction(x0)) / (Fraction(x1) - Fraction(x0))
    for j, (w_, d_, knots) in enumerate(((U.Grain(168), U.Inch(0.308), [(2.2, 0.27), (0.9, 0.31), (1.47, 0.29)]),
                                          (0, 0, [(0.7, 0.25), (1.3, 0.31), (1.9, 0.27), (2.6, 0.30), (3.4, 0.26)]),
                                          (0, 0, [(3.0, 0.24), (2.0, 0.26), (1.0, 0.25), (0.5, 0.28)]))):
        src = [(p["Mach"], p["CD"]) for p in m.TableG7][:: 3]
        mdl = m.DragModelMultiBC([m.BCPoint(b_, Mach=x_) for x_, b_ in knots], [{"Mach": a, "CD": b} for a, b in src], w_, d_,
                                 U.Inch(1.2) if j == 0 else 0)
        want_pts = [(a, float(Fraction(b) * Fraction(float(mdl.BC)) / bc_at(knots, a))) for a, b in src]
        tabs.append((f"multibc{j}", want_pts, False, mdl))
    for ti, tab_ in enumerate(tabs):
        name, pts, shipped = tab_[:3]
        prebuilt = tab_[3] if len(tab_) > 3 else None
        bc = rng.choice([0.2, 0.5, 1.0, 0.365]) if prebuilt is None else float(prebuilt.BC)
        edited = (not shipped) and ti % 3 == 0 and len(tab_) == 3
        if prebuilt is not None:
            otc = impl.outcome(calc_for_model, m, prebuilt)
            chk.stratum("real_multibc_model")
        else:
            otc = impl.outcome(make_calc_for, m, pts, bc, dims=bool(ti % 2), edited=edited)      # every other model carries weight / diameter / length
        if otc[0] != "ok":
            # a legal table (>= 3 strictly ascending Mach points, positive Cd) that the library cannot build a solver for
            chk.violation("C09.LegalTableUnusable", {"source": "real-table", "table": name if shipped else "custom"},
                          {"table": name, "points": pts[:6], "exc": otc[1], "text": str(otc[2])[:200]})
            continue
        tc = otc[1]
        if edited:
            chk.stratum("real_table_edited_in_place_on_a_long_used_calculator")
        fpts = [(Fraction(a), Fraction(b)) for a, b in pts]
        mach = [a for a, _ in pts]
        n = len(pts)
        for x in table_queries(rng, mach):
            tid += 1
            ov = impl.outcome(tc.drag_by_mach, x)
            if ov[0] != "ok":
                chk.violation("C09.LegalTableUnusable", {"source": "real-table", "table": name if shipped else "custom"},
                              {"table": name, "mach": x, "exc": ov[1]})
                continue
            v = ov[1]
            cd = v * bc / 2.08551e-04           # undo the library's own constant to find the piece
            # cells: 1-based cell i means node i <= x <= node i+1; an ulp band puts near-node queries in both cells
            cells = []
            for i in range(0, n + 1):
                lo = mach[i - 1] if i >= 1 else -math.inf
                hi = mach[i] if i < n else math.inf
                tol = 4 * math.ulp(max(abs(x), 1e-300))
                if lo - tol <= x <= hi + tol:
                    cells.append(i)
            near = [p for c_ in cells for p in (0, c_ - 1, c_, c_ + 1, c_ + 2)]
            pcs = pieces_matching(fpts, x, cd, only=sorted(set(p for p in near if 0 <= p <= n)))
            at_node = x in mach
            node_exact = True
            if at_node:
                ct = max([cond_tol(fpts, p_, Fraction(x)) for p_ in sorted(set(near)) if p_ == 0 or 2 <= p_ <= n - 1] or [0.0])
                node_exact = abs(cd - pts[mach.index(x)][1]) <= 1e-9 * max(1.0, pts[mach.index(x)][1]) + ct
            within = True
            if shipped and mach[0] <= x <= mach[-1]:
                i = max(k for k in range(n) if mach[k] <= x)
                if i + 1 < n:
                    lin = pts[i][1] + (pts[i + 1][1] - pts[i][1]) * (x - mach[i]) / (mach[i + 1] - mach[i])
                    within = abs(cd - lin) <= 0.05 * lin
            # the retardation constant: drag_by_mach * BC / Cd, with Cd taken from the exact piece value
            exact_cd = None
            for p in pcs:
                exact_cd = float(line(fpts[0], fpts[1], Fraction(x)) if p == 0 else parabola(fpts[p - 2], fpts[p - 1], fpts[p], Fraction(x)))
                break
            const_ok = True
            if exact_cd:
                const_ok = abs(v * bc / exact_cd - const) <= CONST_REL * const
            ln = {"id": tid, "n": n, "cells": cells, "pieces": pcs, "atNode": at_node, "nodeExact": bool(node_exact),
                  "positive": bool(cd > 0) if shipped else True, "shipped": shipped, "within5pct": bool(within), "constOK": bool(const_ok)}
            lines.append(ln)
            raw[tid] = {"table": name, "mach": x, "drag_by_mach": v, "bc": bc, "cd": cd, "line": ln}
            chk.count(1, (name, x))
            chk.stratum("real_shipped" if shipped else "real_custom")
            if at_node:
                chk.stratum("real_at_node")
            if x > mach[-1]:
                chk.stratum("real_beyond")
    return lines, raw


def solver_uses_lookup(chk, rng):
    """the retardation the solver loop applies in every iteration is density x air speed x drag_by_mach(AIR-relative Mach):
    recorded through hook H1 on shots with strong head / tail / cross winds (air speed != ground speed)"""
    from pbv import integ
    m = impl.pb()
    U = m.Unit
    from pbv import scen
    wind_lists = [[[rng.choice([60.0, 120.0]), wdir, 1e8]] for wdir in (0.0, 180.0, 90.0)]
    # the wind changes along the flight - calm first, calm in the middle, reversal - so that "which speed is the air speed"
    # has to be answered anew in every segment
    wind_lists += [[[0.0, 0.0, 150.0], [rng.choice([60.0, 90.0]), rng.choice([0.0, 180.0]), 1e8]],
                   [[70.0, 180.0, 200.0], [0.0, 0.0, 500.0], [90.0, 0.0, 1e8]],
                   [[80.0, 0.0, 300.0], [80.0, 180.0, 1e8]],
                   scen.wind_list(rng, "multi")]
    for wl in wind_lists:
        wdir = wl[0][1] if len(wl) == 1 else "segments:%d" % len(wl)
        core.reset_world()
        p = shots.gen_shot(rng, winds=0, look=0.0)
        p["mv_fps"] = rng.choice([900.0, 1500.0, 2900.0])
        p["winds"] = wl
        shot = shots.build_shot(p)
        calc = shots.build_calc({"max_calc_step_size_feet": 3.0})
        rec = integ.Recorder().install()
        try:
            calc.fire(shot, U.Foot(900), U.Foot(300))
        except m.RangeError:
            pass
        finally:
            rec.remove()
        tc = calc._calc
        bad = None
        for it in rec.calls[-1]["iters"]:
            w, v = it["wind"], it["pre_v"]
            air = math.sqrt((v.x - w.x) ** 2 + (v.y - w.y) ** 2 + (v.z - w.z) ** 2)
            want = it["density_factor"] * air * tc.drag_by_mach(air / it["mach"])
            if abs(it["drag"] - want) > 1e-12 * abs(want):
                bad = {"iteration": it["i"], "drag_used": it["drag"], "expected": want, "air_speed": air, "ground_speed": v.magnitude()}
                break
        chk.count(1, ("solver_lookup", wdir))
        chk.stratum("solver_uses_lookup")
        if len({(it["wind"].x, it["wind"].z) for it in rec.calls[-1]["iters"]}) >= 2:
            chk.stratum("solver_lookup_wind_changes_in_flight")
        if bad:
            chk.violation("C09.SolverDoesNotUseLookupAtAirMach", {"source": "hook", "wind_from_deg": wdir}, {"shot": p, **bad})


def dict_table_histories(chk, rng, n):
    """custom tables handed over as lists of dicts, with a history: (a) the caller edits its own dict list in place (other
    drag values, same list object, same length) and builds another model from it; (b) several tables of the SAME length are
    produced one after the other by a helper - each list is dropped before the next is created, so the interpreter may hand
    the next list the address of the previous one - all models are built first and used afterwards.  Each model's drag at
    every node is that of the table it was built from."""
    m = impl.pb()

    def node_errors(dm, pts, bc):
        tc = calc_for_model(m, dm)
        return [(a, b, tc.drag_by_mach(a) * bc / 2.08551e-04) for a, b in pts if abs(tc.drag_by_mach(a) * bc / 2.08551e-04 - b) > 1e-9 * b]

    for j in range(n):
        k = rng.choice([5, 7, 9])
        xs = sorted({round(0.2 + 0.35 * i + rng.uniform(0, 0.2), 3) for i in range(k)})
        pts1 = [(x, round(rng.uniform(0.15, 0.8), 4)) for x in xs]
        pts2 = [(x, round(cd * rng.choice([0.6, 1.4]), 4)) for x, cd in pts1]
        bc = rng.choice([0.25, 0.5])
        tab = [{"Mach": a, "CD": b} for a, b in pts1]
        dm1 = m.DragModel(bc, tab)
        bad1 = node_errors(dm1, pts1, bc)
        for e, (_, b) in zip(tab, pts2):
            e["CD"] = b
        dm2 = m.DragModel(bc, tab)
        chk.count(2, ("dict-history", j))
        chk.stratum("dict_table_edited_in_place_and_given_again")
        for which, bad in (("first model", bad1), ("model built after the caller edited its dict list", node_errors(dm2, pts2, bc)),
                           ("first model, after the second was built", node_errors(dm1, pts1, bc))):
            if bad:
                chk.violation("C09.NodeValueDiffers", {"source": "dict-table-history", "which": which}, {"table_now": pts2, "table_first": pts1, "mach_tabulated_used": bad[:4]})

    # ONE calculator used for table A, then for table B on the SAME Mach grid (other coefficients), then for A again - and for B once
    # more: each call uses the table of the shot it was given
    calc = m.Calculator()
    grid = [0.0, 0.5, 0.8, 1.0, 1.2, 2.0, 3.0]
    ptsA = [(x, round(0.2 + 0.05 * math.sin(3 * x) + 0.02 * x, 4)) for x in grid]
    ptsB = [(x, round(cd * 1.15, 4)) for x, cd in ptsA]
    mdl = {"A": m.DragModel(0.3, [{"Mach": a, "CD": b} for a, b in ptsA]), "B": m.DragModel(0.3, [{"Mach": a, "CD": b} for a, b in ptsB])}
    for step, which in enumerate("ABABBA"):
        pts = ptsA if which == "A" else ptsB
        shot = m.Shot(weapon=m.Weapon(), ammo=m.Ammo(mdl[which], m.Unit.FPS(2500)))
        calc.fire(shot, m.Unit.Foot(30), m.Unit.Foot(10))
        calc._calc._init_trajectory(shot)
        bad = [(a, b, calc._calc.drag_by_mach(a) * 0.3 / 2.08551e-04) for a, b in pts if abs(calc._calc.drag_by_mach(a) * 0.3 / 2.08551e-04 - b) > 1e-9 * b]
        chk.count(1, ("same-grid-tables", step))
        chk.stratum("tables_on_one_grid_alternating_on_one_calculator")
        if bad:
            chk.violation("C09.NodeValueDiffers", {"source": "dict-table-history", "which": "tables on the same Mach grid alternating on one calculator"},
                          {"sequence": "ABABBA"[: step + 1], "mach_tabulated_used": bad[:4]})

    def make_table(scale):
        return [{"Mach": 0.5 * i, "CD": round(0.2 + 0.03 * i, 3) * scale} for i in range(7)]

    def build(scale):
        return m.DragModel(0.4, make_table(scale))     # the dict list is dropped on return
    scales = [1.0, 1.3, 0.7, 1.9, 0.45, 1.1]
    models = [build(sc) for sc in scales]
    for sc, dm in zip(scales, models):
        pts = [(0.5 * i, round(0.2 + 0.03 * i, 3) * sc) for i in range(7)]
        bad = node_errors(dm, pts, 0.4)
        chk.count(1, ("dict-dropped", sc))
        chk.stratum("same_length_dict_tables_built_and_dropped_in_turn")
        if bad:
            chk.violation("C09.NodeValueDiffers", {"source": "dict-table-history", "which": "one of several same-length dict tables built in turn"},
                          {"scale": sc, "mach_tabulated_used": bad[:4]})


def run(chk: core.Check, replay=None) -> None:
    core.use_repo(hooks=True)
    core.reset_world()
    thorough = chk.tier == "thorough"
    maxn = 7 if thorough else 6
    d = dict(MaxNodes=maxn, Gaps="{1, 2, 3}", NearRule='"nearest"')
    cfg, defs = core.consts(d)
    r = chk.tlc(core.run_tlc("DragLookup", cfg + "SPECIFICATION Spec\nINVARIANT C09_ChosenPieceAdmissible\nINVARIANT C09_PieceExists\n"
                             "INVARIANT C09_BracketKept\nPROPERTY C09_Terminates\n", defs=defs, coverage=True), f"DragLookup n<={maxn}")
    for a in ("Probe", "Choose"):
        if not r.coverage.get(f"DragLookup.{a}"):
            raise core.MachineryError(f"DragLookup.{a} never taken")
    cfg2, defs2 = core.consts(dict(d, NearRule='"inverted"', MaxNodes=4))
    r2 = core.run_tlc("DragLookup", cfg2 + "SPECIFICATION Spec\nINVARIANT C09_ChosenPieceAdmissible\n", defs=defs2)
    chk.tlc_runs.append({"what": "DragLookup NearRule=inverted (expected counterexample)", "violated": r2.violated})
    if r2.ok:
        raise core.MachineryError("NearRule=inverted expected to be refuted")
    cfg3, defs3 = core.consts(dict(d, MaxNodes=(6 if thorough else 5)))
    gen = core.run_tlc("Gen_DragLookup", cfg3 + "INIT Init\nNEXT GenNext\nINVARIANT Emit\n", defs=defs3, workers=1,
                       tags=["CASE", "GOLDEN"], timeout=1800)
    chk.tlc(gen, "Gen_DragLookup")
    tables.golden(gen)
    bad = tables.check_shipped()
    if bad:
        chk.violation("C09.ShippedTableDiffers", {"tables": bad}, {"tables": bad})
    replay_cases(chk, gen.out("CASE"))
    chk.sample(gen.out("CASE")[33])
    rng = random.Random(chk.seed * 31 + 9)
    lines, raw = real_traces(chk, rng, 200 if thorough else 12)
    fails = core.validate_trace(chk, "Trace_DragLookup", lines, "drag queries on shipped and custom tables")
    chk.traces += len(lines)
    for tid, clause in fails:
        chk.violation(clause, {"source": "real-table", "table": raw[tid]["table"] if raw[tid]["line"]["shipped"] else "custom"}, raw[tid])
    solver_uses_lookup(chk, rng)
    dict_table_histories(chk, rng, 40 if thorough else 6)
    # table identity again after the library has been used
    m = impl.pb()
    sh = shots.build_shot(shots.gen_shot(rng))
    try:
        m.Calculator().fire(sh, m.Unit.Yard(200), m.Unit.Yard(100))
        m.DragModelMultiBC([m.BCPoint(0.3, Mach=1.0), m.BCPoint(0.25, Mach=2.0)], m.TableG7)
    except Exception:
        pass
    bad = tables.check_shipped()
    if bad:
        chk.violation("C09.ShippedTableChangedByLibraryCall", {"tables": bad}, {"tables": bad})
    chk.sample(next(iter(raw.values())))
    chk.require_strata(["int_at_node", "int_beyond_table", "int_midpoint_or_half", "real_shipped", "real_custom", "real_at_node", "real_beyond", "solver_uses_lookup", "solver_lookup_wind_changes_in_flight", "real_table_edited_in_place_on_a_long_used_calculator", "real_multibc_model", "dict_table_edited_in_place_and_given_again", "same_length_dict_tables_built_and_dropped_in_turn", "tables_on_one_grid_alternating_on_one_calculator"])
    chk.rule.append("every table shape (3..%d nodes, gaps 1..3) x every quarter-grid query (TLC Gen_DragLookup) through 2 entry "
                    "points; all 9 shipped tables and seeded custom tables queried at / +-1 ulp / +-1e-9 around every node and "
                    "midpoint and beyond the last entry; non-trivial = query within the table span" % (6 if thorough else 5))
    chk.assumptions += ["piece identification by exact rational evaluation, 1e-9 relative", "retardation constant compared to 1e-5 "
                        "relative (the library writes it with 6 significant digits)",
                        "shipped-table identity: golden digests transcribed from the pinned tree (published tables cannot be fetched offline)"]
