"""C10 - results depend only on the arguments: deterministic, isolated, non-mutating.

D   : Session.tla (history independence, only a successful zeroing writes the weapon's zero; the 'leaks' deviation is
      refuted) and Threads.tla (every interleaving of per-thread blocks; the 'shared' deviation is refuted).
S->C: Gen_Session histories replayed on a pool of real objects sharing sub-objects by reference; after every operation
      (i) the result fingerprint equals that of the same operation on freshly built equal objects with a fresh calculator,
      (ii) a deep snapshot of every argument object is unchanged except the stored zero the spec allows to change,
      (iii) process globals and the shipped tables are unchanged.  Gen_Threads schedules drive real threads at the solver
      hook; every thread's result must equal its sequential result.
"""
from __future__ import annotations

import random
import sys
import threading

from pbv import core, impl, integ, scen, tables

CFG = {"c1": {"max_calc_step_size_feet": 2.0}, "c2": {"max_calc_step_size_feet": 3.0, "cMinimumVelocity": 100.0}}
DIST = {"d1": 100.0, "d2": 250.0}       # yards
GRAPH = dict(Shots='{"s1", "s2", "s3"}', Calcs='{"c1", "c2"}', WeaponOf='[s1 |-> "w1", s2 |-> "w2", s3 |-> "w1"]',
             AmmoOf='[s1 |-> "a1", s2 |-> "a1", s3 |-> "a2"]', Distances='{"d1", "d2"}', Requests='{"plain", "extra", "timed", "fine"}',
             Ops='{"Fire", "FireRaises", "ZeroRaises", "Danger", "Build", "EditTable", "FireBadTable", "Redisplay", "Zero"}', MaxEdits=2)
# focused sub-alphabets enumerated EXHAUSTIVELY by TLC (every history of the given length): one calculator, one shot, the
# operations that compute and the caller's in-place edit - every "computation / edit / computation" sandwich occurs
FOCUS = [dict(Shots='{"s3"}', Calcs='{"c1"}', WeaponOf='[s3 |-> "w1"]', AmmoOf='[s3 |-> "a2"]', Distances='{"d1"}', Requests='{"plain", "fine"}',
              Ops='{"Fire", "Zero", "Danger", "EditTable"}', DirtRule='"ignored"', MaxEdits=3),
         dict(Shots='{"s1"}', Calcs='{"c2"}', WeaponOf='[s1 |-> "w1"]', AmmoOf='[s1 |-> "a1"]', Distances='{"d2"}', Requests='{"extra"}',
              Ops='{"Fire", "Zero", "EditTable", "Redisplay"}', DirtRule='"ignored"', MaxEdits=3)]


class Pool:
    """s1, s3 share weapon w1; s1, s2 share ammunition a1 (model with bullet dimensions); s3's ammunition a2 has none"""

    def __init__(self, zero_raw=None, content=None):
        m = impl.pb()
        U = m.Unit
        self.m = m
        self.tables = {"G7": [dict(p) for p in m.TableG7]}
        a1 = m.Ammo(m.DragModel(0.25, m.TableG7, U.Grain(168), U.Inch(0.308), U.Inch(1.22)), U.FPS(2650), U.Celsius(15), 0.012, True)
        # a2's table is a band-limited one: it ends (Mach 1.8) BELOW the launch Mach number of its load (about 2.15)
        a2 = m.Ammo(m.DragModel(0.4, [dict(p_) for p_ in m.TableG1 if p_["Mach"] <= 1.8]), U.FPS(2400))
        w1 = m.Weapon(U.Inch(2.0), U.Inch(10.0))
        w2 = m.Weapon(U.Inch(3.0), U.Inch(-12.0), sight=m.Sight("FFP", U.Yard(100), U.Mil(0.1), U.Mil(0.1)))
        self.weapons = {"w1": w1, "w2": w2}
        self.ammos = {"a1": a1, "a2": a2}
        atmo = m.Atmo(U.Foot(800), U.InHg(29.1), U.Fahrenheit(48), 35)
        self.atmo = atmo
        self.shots = {
            "s1": m.Shot(w1, a1, U.Degree(0), atmo=atmo, winds=[m.Wind(U.MPH(5), U.Degree(90), U.Foot(300)), m.Wind(U.MPH(8), U.Degree(200), U.Foot(2000))]),
            "s2": m.Shot(w2, a1, U.Degree(4), U.Mil(0.3), U.Degree(3), atmo=m.Atmo(U.Foot(0), U.InHg(29.92), U.Fahrenheit(59), 0),
                         winds=[m.Wind(U.MPH(4), U.Degree(45), U.Foot(200)), m.Wind(U.MPH(9), U.Degree(300), U.Foot(450))]),
            "s3": m.Shot(w1, a2, U.Degree(-2), atmo=atmo, winds=[m.Wind(U.MPH(6), U.Degree(270), U.Foot(150)),
                                                                  m.Wind(U.MPH(3), U.Degree(100), U.Foot(400)), m.Wind(U.MPH(7), U.Degree(0), U.Foot(1e8))]),
        }
        self.weapon_of = {"s1": "w1", "s2": "w2", "s3": "w1"}
        self.ammo_of = {"s1": "a1", "s2": "a1", "s3": "a2"}
        # a shot with a malformed drag table (a repeated Mach row): the drag curve cannot be built, every computation raises
        bad_table = [dict(p) for p in m.TableG7[:20]] + [dict(m.TableG7[19])] + [dict(p) for p in m.TableG7[20:]]
        self.shots["sbad"] = m.Shot(m.Weapon(U.Inch(2.0), U.Inch(10.0)), m.Ammo(m.DragModel(0.3, bad_table), U.FPS(2500)), U.Degree(0))
        self.content = {"a1": 0, "a2": 0}
        for a, n in (content or {}).items():
            for _ in range(n):
                self.edit_table(a)
        if zero_raw:
            for w, raw in zero_raw.items():
                self.weapons[w].zero_elevation = U.Radian(raw)
        self.calcs = {c: m.Calculator(_config=dict(cfg)) for c, cfg in CFG.items()}
        self.kept = []        # (re-fingerprinting closure over a RESULT object handed out earlier, what it was)

    def redisplay(self, sname, salt):
        """re-display every quantity reachable from shot `sname` in another unit of its dimension, switch the preferences"""
        from pbv import units as UA
        m = self.m
        dims = UA.dims()
        dim_of = {n: r["dim"] for n, r in UA.table().items()}

        def flip(q, k):
            if q is None or not hasattr(q, "raw_value"):
                return
            us = dims[dim_of[q.units.name]]
            q << UA.unit_enum(us[(us.index(q.units.name) + 1 + k) % len(us)])
        s = self.shots[sname]
        qs = [s.look_angle, s.relative_angle, s.cant_angle, s.weapon.sight_height, s.weapon.twist, s.weapon.zero_elevation,
              s.ammo.mv, s.ammo.powder_temp, s.ammo.dm.weight, s.ammo.dm.diameter, s.ammo.dm.length,
              s.atmo.altitude, s.atmo.pressure, s.atmo.temperature, s.atmo.powder_temp]
        for w in s._winds:
            qs += [w.velocity, w.direction_from, w.until_distance]
        for k, q in enumerate(qs):
            flip(q, salt + k)
        [m.loadMetricUnits, m.loadMixedUnits, m.loadImperialUnits, m.PreferredUnits.defaults][salt % 4]()

    EDIT_KINDS = ("table", "powder", "dims", "mv")

    def edit_kind(self, a, n=None):
        n = self.content[a] if n is None else n
        return self.EDIT_KINDS[(n + (1 if a == "a2" else 0)) % 4]

    def edit_table(self, a):
        """the caller edits ammunition `a` IN PLACE - in turn its drag table (2 % more drag), its powder-sensitivity
        configuration (switch toggled, modifier assigned), the bullet dimensions of its drag model (spin drift / stability)
        and its muzzle velocity: the same objects, new content"""
        am, U = self.ammos[a], self.m.Unit
        kind = self.edit_kind(a)
        if kind == "table":
            for pnt in am.dm.drag_table:
                pnt.CD = pnt.CD * 1.02
        elif kind == "powder":
            am.use_powder_sensitivity = not am.use_powder_sensitivity
            am.temp_modifier = am.temp_modifier * 1.5 + 0.015
        elif kind == "dims":
            am.dm.weight = U.Grain((am.dm.weight >> U.Grain) * 1.1 + 150.0)
            am.dm.diameter = U.Inch((am.dm.diameter >> U.Inch) * 0.5 + 0.17)
            am.dm.length = U.Inch((am.dm.length >> U.Inch) * 0.5 + 0.7)
        else:
            am.mv = U.FPS((am.mv >> U.FPS) * 0.97)
        self.content[a] += 1

    def zero_raw(self):
        return {w: float(o.zero_elevation.raw_value) for w, o in self.weapons.items()}

    def snapshot(self):
        """everything an operation must not alter (the weapons' stored zero is reported separately)"""
        m = self.m
        rest = []
        for n, s in sorted(self.shots.items()):
            if n == "sbad":
                continue
            rest.append((n, impl.deep_fp(s.look_angle), impl.deep_fp(s.relative_angle), impl.deep_fp(s.cant_angle),
                         impl.deep_fp(s.atmo), impl.deep_fp(list(s._winds)), id(s.weapon), id(s.ammo), id(s.atmo)))
        for n, w in sorted(self.weapons.items()):
            rest.append((n, impl.deep_fp(w.sight_height), impl.deep_fp(w.twist), impl.deep_fp(w.sight)))
        for n, a in sorted(self.ammos.items()):
            rest.append((n, impl.deep_fp(a), tuple(id(p) for p in a.dm.drag_table)))
        for n, c in sorted(self.calcs.items()):
            rest.append((n, tuple(c._calc._config)))
        glob = (tuple((f, int(getattr(m.PreferredUnits, f))) for f in m.PreferredUnits.__dataclass_fields__),
                float(m.get_global_max_calc_step_size().raw_value).hex())
        return {"rest": tuple(rest), "globals": glob, "zero": {w: float(o.zero_elevation.raw_value).hex() for w, o in self.weapons.items()}}


def do_op(pool: Pool, e):
    """execute one operation on the pool; returns a fingerprint of its result (or of the exception)"""
    m = pool.m
    U = m.Unit
    a = e["a"]
    if a == "Redisplay":
        pool.redisplay(e["s"], pool.content["a1"] + pool.content["a2"] + len(e["s"]))
        return ("Redisplay",)
    if a == "EditTable":
        pool.edit_table(pool.ammo_of[e["s"]])
        return ("EditTable", pool.content[pool.ammo_of[e["s"]]])
    if a == "FireBadTable":
        try:
            hr = pool.calcs[e["c"]].fire(pool.shots["sbad"], U.Foot(600), U.Foot(100))
            return ("FireBadTable:returned", tuple(scen.row_fp(r) for r in hr.trajectory))
        except Exception as x:  # noqa
            return ("FireBadTable:" + type(x).__name__,)
    if a == "Build":
        mdl = m.DragModelMultiBC([m.BCPoint(0.26, V=U.FPS(2600)), m.BCPoint(0.24, Mach=1.2)], pool.ammos[pool.ammo_of[e["s"]]].dm.drag_table)
        return ("Build", impl.deep_fp(mdl))
    calc, shot = pool.calcs[e["c"]], pool.shots[e["s"]]
    try:
        if a == "Fire":
            kw = {"plain": {}, "extra": {"extra_data": True}, "timed": {"time_step": 0.05}, "fine": {}}[e["arg"]]
            if e["arg"] == "fine":
                # a short, very fine card: rows closer together than the calculator's maximum integration step
                hr = calc.fire(shot, U.Foot(30), U.Foot(0.2))
            else:
                hr = calc.fire(shot, U.Foot(600), U.Foot(100), **kw)
            pool.kept.append((lambda hr=hr: ("Fire", tuple(scen.row_fp(r) for r in hr.trajectory)), "Fire"))
            return ("Fire", tuple(scen.row_fp(r) for r in hr.trajectory))
        if a == "FireRaises":
            hr = calc.fire(shot, U.Foot(60000), U.Foot(6000))
            return ("FireRaises:returned", tuple(scen.row_fp(r) for r in hr.trajectory))
        if a == "Zero":
            z = calc.set_weapon_zero(shot, U.Yard(DIST[e["arg"]]))
            return ("Zero", float(z.raw_value).hex())
        if a == "ZeroRaises":
            # out of reach (s1, s3) - or, for s2, NEARER than one integration step (10 cm): whatever the finder makes of such a
            # request, it makes the same of it every time and leaves nothing behind on the calculator
            z = calc.set_weapon_zero(shot, U.Centimeter(10) if e["s"] == "s2" else U.Yard(9000))
            return ("ZeroRaises:returned", float(z.raw_value).hex())
        if a == "Danger":
            hr = calc.fire(shot, U.Foot(900), U.Foot(30), extra_data=True)
            d = hr.danger_space(U.Foot(500), U.Foot(2), U.Degree(0))
            pool.kept.append((lambda d=d: ("Danger", scen.row_fp(d.begin), scen.row_fp(d.end), scen.row_fp(d.at_range)), "Danger"))
            return ("Danger", scen.row_fp(d.begin), scen.row_fp(d.end), scen.row_fp(d.at_range))
    except m.RangeError as x:
        fpx = lambda x=x: (a + ":RangeError", x.reason, tuple(scen.row_fp(r) for r in x.incomplete_trajectory),
                           None if x.last_distance is None else float(x.last_distance.raw_value).hex())
        pool.kept.append((fpx, a + ":RangeError"))
        return fpx()
    except m.ZeroFindingError as x:
        return (a + ":ZeroFindingError", float(x.zero_finding_error).hex(), x.iterations_count)
    raise core.MachineryError(f"unknown operation {a}")


def results_stable(chk, pool, b):
    """results handed out earlier (trajectories, danger spaces, the partial trajectory attached to a range error) still say
    what they said when they were returned: a later computation must not write into them"""
    for ent in pool.kept:
        if len(ent) != 4:
            continue
        refp, what, fp_then, step = ent
        now = impl.outcome(refp)
        chk.count(1)
        chk.stratum("earlier_results_rechecked")
        if now[0] != "ok" or now[1] != fp_then:
            chk.violation("C10.EarlierResultChanged", {"result_of": what, "later_ops": "/".join(x["a"] for x in b[step + 1:][:3])},
                          {"history": b, "step": step})


def replay_sessions(chk, behs):
    oracle = {}
    for bi, b in enumerate(behs):
        core.reset_world()
        pool = Pool()
        snap = pool.snapshot()
        sig = []
        for step, e in enumerate(b):
            sig.append(e["a"])
            zr = pool.zero_raw()
            ct = dict(pool.content)
            key_or = (e["a"], e["c"], e["s"], e["arg"], float(zr[pool.weapon_of.get(e["s"], "w1")]).hex(), tuple(sorted(ct.items())))
            nk = len(pool.kept)
            o = impl.outcome(do_op, pool, e)
            if o[0] == "ok" and len(pool.kept) > nk:
                pool.kept[-1] = (pool.kept[-1][0], pool.kept[-1][1], o[1], step)
            chk.count(1, (bi, step) if step >= 1 else None)
            chk.stratum("op_" + e["a"])
            k = {"op": e["a"], "calc": e["c"], "shot": e["s"], "arg": e["arg"], "after": "/".join(sig[:-1][-2:])}
            det = {"history": b, "step": step}
            if o[0] != "ok":
                chk.violation("C10.UnexpectedException", k, {**det, "exc": o[1], "text": str(o[2])[:200]})
                break
            # (i) function of the arguments: the same operation on freshly built equal objects, fresh calculator
            if key_or not in oracle:
                fresh = Pool(zero_raw=zr, content=ct)
                oracle[key_or] = do_op(fresh, e)
            if o[1] != oracle[key_or]:
                chk.violation("C10.ResultDependsOnHistory", k, {**det, "result_kind": o[1][0], "fresh_kind": oracle[key_or][0]})
            if e["a"] == "FireBadTable" and o[1][0] == "FireBadTable:returned":
                pass   # reported above as a result that differs from the fresh calculator's (which raises)
            elif (e["ok"] and ":" in o[1][0]) or (not e["ok"] and ":" not in o[1][0]) or (not e["ok"] and o[1][0].endswith(":returned")):
                # the scenario was built so that this operation succeeds / raises; a tree on which it does the opposite is wrong
                # about something else (limits, reach) - not C10's business as long as it does so EVERY time (oracle above)
                chk.extra.setdefault("operations_with_unexpected_outcome_kind", {}).setdefault(e["a"] + " -> " + o[1][0], 0)
                chk.extra["operations_with_unexpected_outcome_kind"][e["a"] + " -> " + o[1][0]] += 1
            # (ii) nothing mutated except the stored zero the spec allows to change
            new = pool.snapshot()
            if e["a"] == "EditTable":
                chk.stratum("table_edited_in_place")
                chk.stratum("edit_kind_" + pool.edit_kind(pool.ammo_of[e["s"]], pool.content[pool.ammo_of[e["s"]]] - 1))
                if {k_: v_ for k_, v_ in pool.content.items() if k_ in e["content"]} != e["content"]:
                    raise core.MachineryError("binding: table edit counts differ from the spec's")
            elif new["rest"] != snap["rest"]:
                chk.violation("C10.ArgumentMutated", k, det)
            if e["a"] == "Redisplay":
                chk.stratum("quantities_redisplayed_and_preferences_switched")
            elif new["globals"] != snap["globals"]:
                chk.violation("C10.GlobalsChanged", k, det)
            for w in new["zero"]:
                changed = new["zero"][w] != snap["zero"][w]
                if e["a"] == "ZeroRaises" and o[1][0].endswith(":returned") and w == pool.weapon_of.get(e["s"]):
                    continue     # a tree whose finder copes with this request has zeroed the weapon: that is what zeroing does
                if changed and w not in e["zeroChanged"]:
                    chk.violation("C10.StoredZeroChanged", {**k, "weapon": w}, det)
            if e["zeroChanged"]:
                chk.stratum("zero_written")
            snap = new
        results_stable(chk, pool, b)
        chk.traces += 1
    bad = tables.check_shipped()
    if bad:
        chk.violation("C10.ShippedTableChanged", {"tables": bad}, {})


# ---------------------------------------------------------------------------------------------------
# threads
# ---------------------------------------------------------------------------------------------------

class Scheduler:
    """hook sink that lets exactly one thread run at a time, block by block, following a TLC schedule"""

    def __init__(self, names, blocks, events_per_block):
        self.cv = threading.Condition()
        self.turn = None
        self.names = names             # thread ident -> name
        self.counts = {}
        self.block_of = {}
        self.events_per_block = events_per_block
        self.blocks = blocks
        self.waiting = set()
        self.done = set()

    def __call__(self, ev, calc, data):
        name = self.names.get(threading.get_ident())
        if name is None or ev != "iter":
            return
        self.counts[name] = self.counts.get(name, 0) + 1
        if self.counts[name] % self.events_per_block[name] == 0 and self.block_of.get(name, 0) < self.blocks - 1:
            self.block_of[name] = self.block_of.get(name, 0) + 1
            self.pause(name)

    def pause(self, name):
        with self.cv:
            self.waiting.add(name)
            self.turn = None
            self.cv.notify_all()
            while self.turn != name:
                self.cv.wait(timeout=60)
            self.waiting.discard(name)

    def start_gate(self, name):
        with self.cv:
            self.waiting.add(name)
            self.cv.notify_all()
            while self.turn != name:
                self.cv.wait(timeout=60)
            self.waiting.discard(name)

    def finish(self, name):
        with self.cv:
            self.done.add(name)
            self.turn = None
            self.cv.notify_all()

    def grant(self, name):
        with self.cv:
            if name in self.done:
                return
            while name not in self.waiting and name not in self.done:
                self.cv.wait(timeout=60)
            if name in self.done:
                return
            self.turn = name
            self.cv.notify_all()
            while self.turn == name and name not in self.done:
                self.cv.wait(timeout=60)


def thread_jobs(variant=0):
    """name -> (operation on a private pool).  variant 1: every thread's calculator has the SAME configuration (distinct
    calculator objects that compare equal: anything keyed by configuration instead of by calculator would be shared)"""
    return {"t1": {"a": "Fire", "c": "c1", "s": "s1", "arg": "extra"},
            "t2": {"a": "Danger", "c": "c1" if variant else "c2", "s": "s3", "arg": "extra"},
            "t3": {"a": "Zero", "c": "c1", "s": "s2", "arg": "d2"}}


def run_schedule(sched, blocks, seq_fp, iters, variant=0):
    names_order = sorted(set(sched))
    jobs = thread_jobs(variant)
    pools = {n: Pool() for n in names_order}
    results = {}
    sch = Scheduler({}, blocks, {n: max(1, iters[n] // blocks) for n in names_order})

    def worker(n):
        sch.names[threading.get_ident()] = n
        sch.start_gate(n)
        try:
            results[n] = do_op(pools[n], jobs[n])
        except Exception as x:  # noqa
            results[n] = ("exception", type(x).__name__, str(x)[:200])
        finally:
            sch.finish(n)

    tc = integ.tcmod()
    if not tc._verif_install(sch):
        raise core.MachineryError("hook sink refused")
    threads = [threading.Thread(target=worker, args=(n,), daemon=True) for n in names_order]
    try:
        for t in threads:
            t.start()
        for n in sched:
            sch.grant(n)
        # schedule exhausted: let everybody run to the end in name order
        for n in names_order:
            while n not in sch.done:
                sch.grant(n)
        for t in threads:
            t.join(timeout=120)
    finally:
        tc._verif_install(None)
    return results


def threads_part(chk, thorough, rng):
    procs = '{"t1", "t2"}'
    blocks = 4 if thorough else 3
    for sr in ('"private"',):
        cfg, defs = core.consts(dict(Procs=procs, Blocks=blocks, ShareRule=sr))
        chk.tlc(core.run_tlc("Threads", cfg + "SPECIFICATION Spec\nINVARIANT C10_Isolated\nPROPERTY C10_AllFinish\n", defs=defs),
                f"Threads 2 x {blocks} blocks")
    cfg, defs = core.consts(dict(Procs=procs, Blocks=2, ShareRule='"shared"'))
    r = core.run_tlc("Threads", cfg + "SPECIFICATION Spec\nINVARIANT C10_Isolated\n", defs=defs)
    chk.tlc_runs.append({"what": "Threads ShareRule=shared (expected counterexample)", "violated": r.violated})
    if r.ok:
        raise core.MachineryError("ShareRule=shared expected to be refuted")
    cfg, defs = core.consts(dict(Procs=procs, Blocks=blocks, ShareRule='"private"'))
    gen = core.run_tlc("Gen_Threads", cfg + "SPECIFICATION Spec\nINVARIANT Emit\n", defs=defs, workers=1, tags=["SCHED"])
    scheds = gen.out("SCHED")
    chk.tlc(gen, "Gen_Threads")
    if thorough:
        cfg3, defs3 = core.consts(dict(Procs='{"t1", "t2", "t3"}', Blocks=2, ShareRule='"private"'))
        gen3 = core.run_tlc("Gen_Threads", cfg3 + "SPECIFICATION Spec\nINVARIANT Emit\n", defs=defs3, workers=1, tags=["SCHED"])
        scheds += gen3.out("SCHED")
    # sequential results and iteration counts (block size = iterations / blocks)
    seqs, iterss = {}, {}
    for variant in (0, 1):
        seqs[variant], iterss[variant] = {}, {}
        for n, job in thread_jobs(variant).items():
            core.reset_world()
            p = Pool()
            rec = integ.Recorder(keep_integrate=True).install()
            seqs[variant][n] = do_op(p, job)
            rec.remove()
            iterss[variant][n] = max(1, sum(len(c["iters"]) for c in rec.calls) + sum(ic["n"] for z in rec.zcalls for ic in z["integrate_calls"]))
    jobs, seq = thread_jobs(0), seqs[0]
    for si, sched in enumerate(scheds):
        variant = si % 2
        res = run_schedule(sched, blocks, seqs[variant], iterss[variant], variant)
        chk.count(1, ("sched", tuple(sched)))
        chk.stratum("schedule")
        chk.stratum("schedule_equal_configurations" if variant else "schedule_different_configurations")
        for n, fp in res.items():
            if fp != seqs[variant][n]:
                chk.violation("C10.ThreadsInterfere", {"thread": n, "source": "schedule", "equal_configurations": bool(variant)},
                              {"schedule": sched, "got_kind": fp[0]})
        chk.traces += 1
    chk.sample({"schedule": scheds[len(scheds) // 2]})
    # free-running threads with a tiny switch interval (preemption between any two bytecodes)
    old = sys.getswitchinterval()
    sys.setswitchinterval(1e-6)
    try:
        for rep in range(6 if thorough else 2):
            results = {}

            def w(n):
                core_pool = Pool()
                results[n] = do_op(core_pool, jobs[n])
            ts = [threading.Thread(target=w, args=(n,)) for n in jobs]
            for t in ts:
                t.start()
            for t in ts:
                t.join()
            chk.count(1)
            chk.stratum("free_running")
            for n, fp in results.items():
                if fp != seq[n]:
                    chk.violation("C10.ThreadsInterfere", {"thread": n, "source": "free-running"}, {"rep": rep})
    finally:
        sys.setswitchinterval(old)


def default_objects_isolated(chk):
    """What one shot hands out belongs to that shot: the default atmosphere and the default wind of a shot built without them,
    and what the factories (Atmo.icao / Atmo.standard) return, are edited through their public attributes - later shots built
    the same way (other objects, equal arguments) must compute what such shots computed before the edits."""
    m = impl.pb()
    U = m.Unit
    core.reset_world()

    def fresh_default_shot():
        return m.Shot(m.Weapon(U.Inch(2), U.Inch(10)), m.Ammo(m.DragModel(0.3, m.TableG7, U.Grain(168), U.Inch(0.308), U.Inch(1.2)), U.FPS(2700)))

    def results():
        calc = m.Calculator(_config={"max_calc_step_size_feet": 2.0})
        out = [tuple(scen.row_fp(r) for r in calc.fire(fresh_default_shot(), U.Foot(900), U.Foot(300)).trajectory)]
        for alt in (None, U.Foot(1500), U.Meter(0)):
            at = m.Atmo.icao() if alt is None else m.Atmo.icao(alt)
            sh = fresh_default_shot()
            sh.atmo = at
            out.append(tuple(scen.row_fp(r) for r in calc.fire(sh, U.Foot(900), U.Foot(300)).trajectory))
        out.append(float(calc.set_weapon_zero(fresh_default_shot(), U.Yard(100)).raw_value).hex())
        return out

    before = results()
    s0 = fresh_default_shot()
    s0.atmo.humidity = 90
    for w_ in s0.winds:
        w_.velocity, w_.direction_from = U.MPH(25), U.Degree(90)
    for alt in (None, U.Foot(1500), U.Meter(0)):
        a0 = m.Atmo.icao() if alt is None else m.Atmo.icao(alt)
        a0.humidity = 75
    s0.weapon.zero_elevation = U.Mil(3)
    after = impl.outcome(results)
    chk.count(1, ("default_objects",))
    chk.stratum("default_objects_edited")
    if after[0] != "ok" or after[1] != before:
        which = "raised " + str(after[1]) if after[0] != "ok" else [i for i, (x, y) in enumerate(zip(before, after[1])) if x != y]
        chk.violation("C10.DefaultObjectsShared", {"source": "default-objects"}, {"differs": which})
    core.reset_world()


def edited_arguments_followed(chk):
    """A result is a function of the arguments AS THEY ARE when the call is made: the caller edits, in place, the plain fields
    of a shot that has already been fired (or zeroed) on a long-used calculator - look / relative / cant angle, the weapon's
    sight height and twist, the ammunition's muzzle velocity, a wind's speed and direction, the atmosphere object replaced -
    and fires again: the result is that of freshly built equal objects on a fresh calculator."""
    m = impl.pb()
    U = m.Unit
    core.reset_world()

    def build(st):
        dm = m.DragModel(0.3, m.TableG7, U.Grain(168), U.Inch(0.308), U.Inch(1.2))
        return m.Shot(m.Weapon(U.Inch(st["sight"]), U.Inch(st["twist"])), m.Ammo(dm, U.FPS(st["mv"])), U.Degree(st["look"]), U.Mil(st["rel"]),
                      U.Degree(st["cant"]), atmo=m.Atmo(U.Foot(st["alt"]), U.InHg(29.5), U.Fahrenheit(50), st.get("hum", 20)),
                      winds=[m.Wind(U.MPH(st["w"]), U.Degree(st["wd"]), U.Yard(300))])
    fire = lambda c, sh: tuple(scen.row_fp(r) for r in c.fire(sh, U.Foot(900), U.Foot(300), extra_data=True).trajectory)
    st = {"sight": 2.0, "twist": 10.0, "mv": 2700.0, "look": 0.0, "rel": 0.5, "cant": 0.0, "alt": 500.0, "w": 5.0, "wd": 90.0}
    calc = m.Calculator(_config={"max_calc_step_size_feet": 2.0})
    shot = build(st)
    fire(calc, shot)
    calc.set_weapon_zero(shot, U.Yard(100))
    st_zero = float(shot.weapon.zero_elevation.raw_value)
    edits = [("look", 6.0, lambda v: setattr(shot, "look_angle", U.Degree(v))), ("rel", -1.5, lambda v: setattr(shot, "relative_angle", U.Mil(v))),
             ("cant", 12.0, lambda v: setattr(shot, "cant_angle", U.Degree(v))), ("sight", 3.5, lambda v: setattr(shot.weapon, "sight_height", U.Inch(v))),
             ("twist", -9.0, lambda v: setattr(shot.weapon, "twist", U.Inch(v))), ("mv", 2450.0, lambda v: setattr(shot.ammo, "mv", U.FPS(v))),
             ("w", 14.0, lambda v: setattr(shot.winds[0], "velocity", U.MPH(v))), ("wd", 250.0, lambda v: setattr(shot.winds[0], "direction_from", U.Degree(v))),
             ("alt", 4200.0, lambda v: setattr(shot, "atmo", m.Atmo(U.Foot(v), U.InHg(29.5), U.Fahrenheit(50), 20)))]
    for name, val, do in edits:
        do(val)
        st[name] = val
        got = impl.outcome(fire, calc, shot)
        fr = build(st)
        fr.weapon.zero_elevation = U.Radian(st_zero)
        want = fire(m.Calculator(_config={"max_calc_step_size_feet": 2.0}), fr)
        chk.count(1, ("edited-argument", name))
        chk.stratum("shot_fields_edited_in_place_between_fires")
        if got[0] != "ok" or got[1] != want:
            chk.violation("C10.EditedArgumentNotFollowed", {"source": "edited-arguments", "field": name},
                          {"state": dict(st), "outcome": got[0] if got[0] != "ok" else "rows differ from a freshly built equal shot"})
    # the atmosphere's humidity set through its public setter between two SHORT fires of the same shot (few integration steps:
    # whatever was remembered per altitude or per step during the first is still at hand during the second)
    fire_s = lambda c, sh: tuple(scen.row_fp(r) for r in c.fire(sh, U.Foot(150), U.Foot(50)).trajectory)
    for hum in (80, 0.35, 0):
        fire_s(calc, shot)
        shot.atmo.humidity = hum
        st["hum"] = hum
        got = impl.outcome(fire_s, calc, shot)
        fr = build(st)
        fr.weapon.zero_elevation = U.Radian(st_zero)
        want = fire_s(m.Calculator(_config={"max_calc_step_size_feet": 2.0}), fr)
        chk.count(1, ("edited-argument", "humidity", hum))
        chk.stratum("atmosphere_humidity_set_between_short_fires")
        if got[0] != "ok" or got[1] != want:
            chk.violation("C10.EditedArgumentNotFollowed", {"source": "edited-arguments", "field": "atmo.humidity"},
                          {"state": dict(st), "outcome": got[0] if got[0] != "ok" else "rows differ from a freshly built equal shot"})
    core.reset_world()


def results_passed_back_in(chk):
    """Quantities the library handed out (the angle a zeroing returned, a weapon's stored zero) or that the caller still holds are
    passed back in - as the zero elevation of a SECOND weapon - and that weapon is zeroed for another distance: zeroing changes the
    zeroed weapon's stored zero and nothing else - not the first weapon's zero, not the magnitude of any quantity object."""
    m = impl.pb()
    U = m.Unit
    core.reset_world()
    dm = lambda: m.DragModel(0.3, m.TableG7, U.Grain(168), U.Inch(0.308), U.Inch(1.2))
    fire = lambda c, sh: tuple(scen.row_fp(r) for r in c.fire(sh, U.Foot(900), U.Foot(300)).trajectory)
    for how in ("returned-angle", "first-weapons-zero", "callers-own-angle"):
        calc = m.Calculator(_config={"max_calc_step_size_feet": 2.0})
        rifle1 = m.Weapon(U.Inch(2), U.Inch(10))
        shot1 = m.Shot(rifle1, m.Ammo(dm(), U.FPS(2700)))
        z = calc.set_weapon_zero(shot1, U.Yard(100))
        held = {"returned-angle": z, "first-weapons-zero": rifle1.zero_elevation, "callers-own-angle": U.Mil(1.25)}[how]
        held_raw = float(held.raw_value).hex()
        zero1 = float(rifle1.zero_elevation.raw_value).hex()
        before = fire(calc, shot1)
        rifle2 = m.Weapon(U.Inch(3), U.Inch(10), held)
        shot2 = m.Shot(rifle2, m.Ammo(dm(), U.FPS(2700)))
        impl.outcome(calc.set_weapon_zero, shot2, U.Yard(300))
        chk.count(1, ("passed-back", how))
        chk.stratum("quantities_handed_out_passed_back_in")
        k = {"source": "passed-back", "how": how}
        if float(held.raw_value).hex() != held_raw:
            chk.violation("C10.QuantityMagnitudeChanged", k, {"was": held_raw, "now": float(held.raw_value).hex()})
        if float(rifle1.zero_elevation.raw_value).hex() != zero1:
            chk.violation("C10.StoredZeroChanged", {**k, "weapon": "the first rifle (not zeroed)"}, {"was": zero1, "now": float(rifle1.zero_elevation.raw_value).hex()})
        if fire(calc, shot1) != before:
            chk.violation("C10.ResultDependsOnHistory", {**k, "op": "Fire", "after": "zeroing another weapon"}, {})
    core.reset_world()


def tables_in_callers_order(chk):
    """The non-mutation clause over the tables a caller may hand in: a drag table is the caller's LIST - in descending Mach
    order, rotated, shuffled - and every computation (fire, zeroing, elevation for a target, danger space) leaves it the same
    list of the same rows in the same order with the same contents, and answers as it does for an equal list built afresh."""
    m = impl.pb()
    U = m.Unit
    core.reset_world()
    g7 = [dict(p_) for p_ in m.TableG7]
    rnd = random.Random(5)
    shuffled = list(g7)
    rnd.shuffle(shuffled)
    orders = {"descending": list(reversed(g7)), "rotated": g7[40:] + g7[:40], "shuffled": shuffled,
              "two_rows_swapped": g7[:10] + [g7[11], g7[10]] + g7[12:]}

    def ops(calc, shot):
        return [("fire", lambda: calc.fire(shot, U.Foot(600), U.Foot(100))),
                ("fire_extra", lambda: calc.fire(shot, U.Foot(600), U.Foot(100), extra_data=True)),
                ("zero", lambda: calc.set_weapon_zero(shot, U.Yard(100))),
                ("elevation_for_target", lambda: calc.barrel_elevation_for_target(shot, U.Yard(200)))]

    for name, tab in orders.items():
        def build():
            dm = m.DragModel(0.25, [dict(p_) for p_ in tab], U.Grain(168), U.Inch(0.308), U.Inch(1.22))
            return m.Shot(m.Weapon(U.Inch(2), U.Inch(10)), m.Ammo(dm, U.FPS(2650)), U.Degree(1))
        try:
            shot = build()
        except Exception:  # noqa  (a tree that refuses tables in this order is C09's business)
            chk.extra.setdefault("table_orders_refused", []).append(name)
            continue
        calc = m.Calculator(_config={"max_calc_step_size_feet": 2.0})
        for i, (op, f) in enumerate(ops(calc, shot)):
            fp0 = (impl.deep_fp(shot.ammo), tuple(id(p_) for p_ in shot.ammo.dm.drag_table))
            z0 = float(shot.weapon.zero_elevation.raw_value)
            o = impl.outcome(f)
            fp1 = (impl.deep_fp(shot.ammo), tuple(id(p_) for p_ in shot.ammo.dm.drag_table))
            chk.count(1, ("table_order", name, op))
            chk.stratum("table_in_callers_order_" + name)
            k = {"op": op, "table_order": name, "source": "tables-in-callers-order"}
            if fp1 != fp0:
                chk.violation("C10.ArgumentMutated", k, {"what": "drag table of the ammunition passed in", "first_row_now": str(shot.ammo.dm.drag_table[0])})
                break
            fs = build()
            fs.weapon.zero_elevation = U.Radian(z0)     # equal arguments: the stored zero the earlier zeroing wrote included
            o2 = impl.outcome(ops(m.Calculator(_config={"max_calc_step_size_feet": 2.0}), fs)[i][1])

            def fpr(x):
                if x[0] != "ok":
                    return (x[0], str(x[1]))
                return tuple(scen.row_fp(r) for r in x[1].trajectory) if hasattr(x[1], "trajectory") else float(x[1].raw_value).hex()
            if fpr(o) != fpr(o2):
                chk.violation("C10.ResultDependsOnHistory", k, {"after": [x[0] for x in ops(calc, shot)[:i]]})
    core.reset_world()


def run(chk: core.Check, replay=None) -> None:
    core.use_repo()
    core.reset_world()
    thorough = chk.tier == "thorough"
    default_objects_isolated(chk)
    tables_in_callers_order(chk)
    edited_arguments_followed(chk)
    results_passed_back_in(chk)
    d = dict(GRAPH, DirtRule='"ignored"', MaxOps=4 if thorough else 3)
    body = ("SPECIFICATION Spec\nINVARIANT C10_HistoryIndependent\nPROPERTY C10_ZeroResultIndependent\nPROPERTY C10_OnlyZeroWritesZero\n"
            "INVARIANT C10_NothingElseMutates\nPROPERTY C10_FailedZeroKeepsZero\n")
    cfg, defs = core.consts(d)
    r = chk.tlc(core.run_tlc("Session", cfg + body, defs=defs, coverage=True), f"Session depth {d['MaxOps']}")
    for a in ("Fire", "FireRaises", "Zero", "ZeroRaises", "Danger", "Build", "EditTable", "FireBadTable", "Redisplay"):
        if not r.coverage.get(f"Session.{a}"):
            raise core.MachineryError(f"Session.{a} never taken")
    cfg, defs = core.consts(dict(d, DirtRule='"leaks"', MaxOps=2))
    r2 = core.run_tlc("Session", cfg + "SPECIFICATION Spec\nINVARIANT C10_HistoryIndependent\n", defs=defs)
    chk.tlc_runs.append({"what": "Session DirtRule=leaks (expected counterexample)", "violated": r2.violated})
    if r2.ok:
        raise core.MachineryError("DirtRule=leaks expected to be refuted")
    rng = random.Random(chk.seed + 10)
    cfg, defs = core.consts(dict(d, MaxOps=6))
    gen = core.run_tlc("Gen_Session", cfg + "SPECIFICATION GenSpec\nINVARIANT Emit\n", defs=defs, workers=1, tags=["BEH"],
                       simulate=f"num={40 if thorough else 6}", depth=7, seed=chk.seed + 10)
    behs = gen.out("BEH")
    rng.shuffle(behs)
    # half of the replayed histories are the ones richest in "sandwiches": a computation, then the caller's in-place edit of
    # the ammunition it used, then another computation with that ammunition on the SAME calculator (what a stale cache or a
    # memo keyed on object identity gets wrong); the other half is the plain random sample
    ammo_of = {"s1": "a1", "s2": "a1", "s3": "a2"}
    comp = ("Fire", "Zero", "Danger", "FireRaises", "ZeroRaises")

    def sandwiches(b, kind):
        """kind 0: the edit rescales the table, 1: it reconfigures the ammunition (see Pool.edit_table)"""
        n, cnt = 0, {"a1": 0, "a2": 0}
        for i, e in enumerate(b):
            if e["a"] != "EditTable":
                continue
            am = ammo_of[e["s"]]
            k_ = 0 if (cnt[am] + (1 if am == "a2" else 0)) % 4 == 0 else 1
            cnt[am] += 1
            if k_ != kind:
                continue
            # strict form: for some calculator, its last computation before the edit and its first one after it use the
            # SAME shot (same ammunition, atmosphere, weapon objects) whose ammunition was edited
            for c_ in ("c1", "c2"):
                bef = [x for x in b[:i] if x["a"] in comp and x["c"] == c_]
                aft = [x for x in b[i + 1:] if x["a"] in comp and x["c"] == c_]
                if bef and aft and bef[-1]["s"] == aft[0]["s"] and ammo_of.get(aft[0]["s"]) == am:
                    n += 3
                elif bef and aft and ammo_of.get(bef[-1]["s"]) == am and ammo_of.get(aft[0]["s"]) == am:
                    n += 1
        return n
    quota = 900 if thorough else 110
    rich = sorted(behs, key=lambda b: -sandwiches(b, 1))[: quota // 4]
    rich_ids = {id(b) for b in rich}
    rich += [b for b in sorted(behs, key=lambda b: -sandwiches(b, 0)) if id(b) not in rich_ids][: quota // 4]
    rich_ids = {id(b) for b in rich}
    behs = rich + [b for b in behs if id(b) not in rich_ids][: quota - len(rich)]
    chk.tlc_runs.append({"what": "Gen_Session -simulate", "behaviours": len(gen.out("BEH")), "replayed": len(behs)})
    replay_sessions(chk, behs)
    for fi, foc in enumerate(FOCUS if thorough else FOCUS[:1]):
        cfgf, defsf = core.consts(dict(foc, MaxOps=4 if thorough else 3))
        genf = core.run_tlc("Gen_Session", cfgf + "SPECIFICATION GenSpec\nINVARIANT Emit\n", defs=defsf, workers=1, tags=["BEH"])
        chk.tlc(genf, f"Gen_Session focused alphabet {fi} (exhaustive)")
        fb = genf.out("BEH")
        if not any(sandwiches(b, 1) >= 3 for b in fb):
            raise core.MachineryError("focused session enumeration has no computation / ammunition edit / computation history")
        chk.stratum("edit_between_computations_on_one_calculator")
        replay_sessions(chk, fb)
    # a second exhaustive alphabet: requests the zero finder cannot serve (out of reach; nearer than one integration step) between
    # ordinary computations on ONE calculator - whatever a failed or degenerate search leaves on the long-lived solver object
    # (a step size, an elevation, a curve) must not reach the next computation
    foc = dict(Shots='{"s2"}', Calcs='{"c1"}', WeaponOf='[s2 |-> "w2"]', AmmoOf='[s2 |-> "a1"]', Distances='{"d1"}', Requests='{"plain", "fine"}',
               Ops='{"Fire", "Zero", "ZeroRaises"}', DirtRule='"ignored"', MaxEdits=1)
    cfgf, defsf = core.consts(dict(foc, MaxOps=3))
    genf = core.run_tlc("Gen_Session", cfgf + "SPECIFICATION GenSpec\nINVARIANT Emit\n", defs=defsf, workers=1, tags=["BEH"])
    chk.tlc(genf, "Gen_Session focused alphabet: unservable zero requests between computations (exhaustive)")
    fb = genf.out("BEH")
    if not any(any(x["a"] == "ZeroRaises" and y["a"] == "Fire" for x, y in zip(b, b[1:])) for b in fb):
        raise core.MachineryError("focused session enumeration has no 'zero request that raises, then fire' history")
    chk.stratum("unservable_zero_request_then_computation_on_one_calculator")
    replay_sessions(chk, fb)
    chk.sample({"history": behs[0]})
    threads_part(chk, thorough, rng)
    chk.require_strata(["op_Fire", "op_FireRaises", "op_Zero", "op_ZeroRaises", "op_Danger", "op_Build", "op_EditTable", "op_FireBadTable",
                        "default_objects_edited", "shot_fields_edited_in_place_between_fires", "quantities_handed_out_passed_back_in", "atmosphere_humidity_set_between_short_fires", "earlier_results_rechecked", "table_edited_in_place", "edit_kind_table", "edit_kind_powder", "edit_kind_dims", "edit_between_computations_on_one_calculator", "unservable_zero_request_then_computation_on_one_calculator", "quantities_redisplayed_and_preferences_switched", "zero_written", "schedule", "schedule_equal_configurations", "schedule_different_configurations",
                        "free_running"])
    chk.exhaustive = False
    chk.rule.append("TLC-simulated session histories of 6 operations over 3 shots (shared weapon / shared ammunition, with and without "
                    "bullet dimensions) x 2 calculators, incl. raising fire/zero, danger space and multi-BC construction; every result "
                    "compared with the same operation on freshly built objects; every TLC-enumerated interleaving of 2 threads x 3/4 "
                    "blocks (3 threads in thorough) driven at the solver hook, plus free-running threads with a 1 us switch interval; "
                    "non-trivial = an operation that is not the first of its history, or a schedule")
    chk.assumptions += ["thread interleavings are controlled at hook events (iteration granularity); preemption inside an iteration is "
                        "covered only by the free-running runs", "display units of quantities passed as arguments may change (C13)"]
