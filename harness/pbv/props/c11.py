"""C11 - what is recorded never changes what is computed."""
from __future__ import annotations

import copy
import math
import random

from pbv import core, lattice, loopsuite, scen, shots

ULPS = 64


def close_rows(r1, r2) -> bool:
    """all fields equal to float rounding (the interpolation ratio uses an accumulated record distance)"""
    for a, b in zip(r1, r2):
        if hasattr(a, "raw_value"):
            a, b = float(a.raw_value), float(b.raw_value)
        if isinstance(a, float):
            if a == b:
                continue
            tol = ULPS * math.ulp(max(abs(a), abs(b), 1e-9)) + 1e-9 * abs(a - b)
            # drop_adj / windage_adj near the muzzle divide by a tiny distance: compare relative to 1e-9 as well
            if abs(a - b) > max(tol, 1e-11 * max(abs(a), abs(b), 1.0)):
                return False
    return True


def run(chk: core.Check, replay=None) -> None:
    core.use_repo()
    thorough = chk.tier == "thorough"
    loopsuite.design(chk, "C11")
    lattice.replay(chk, "C11", thorough)          # exact spec -> code replay of whole fire() results
    behs = loopsuite.gen_behaviours(chk, 2000 if thorough else 300, chk.seed + 11)
    loopsuite.object_replay(chk, "C11", behs)
    rng = random.Random(chk.seed * 23 + 11)
    outs, pairs = [], []
    tid = 0
    n = 50 if thorough else 7

    def fire(sc):
        nonlocal tid
        tid += 1
        sc = dict(sc)
        sc["tid"] = tid
        o = scen.run_fire(sc, tid)
        outs.append(o)
        return o

    for i in range(n):
        p = shots.gen_shot(rng)
        cfg = {"max_calc_step_size_feet": rng.choice([1.0, 2.0, 4.0])} if not (thorough and rng.random() < 0.2) else None
        ms = (cfg or {}).get("max_calc_step_size_feet", 0.5)
        if i % 3 == 2:
            R = 60.0 * ms          # short range, record steps down to below the maximum integration step
            s = 6.0 * ms
        else:
            R = rng.choice([600.0, 1500.0, 3000.0])
            s = R / rng.choice([6, 10, 12])
        if i % 4 == 1:
            # an inclined shot with a wind boundary in the last few percent of the requested range - between R cos(look) and R:
            # whatever is prepared from the requested range (clipped wind lists, ...) must not change the rows before R
            p["look_deg"] = rng.choice([10.0, -15.0, 20.0, 30.0, -25.0])
            cl = math.cos(math.radians(p["look_deg"]))
            p["winds"] = [[rng.choice([8.0, 15.0]), 90.0, R * (1.0 + cl) / 2.0], [rng.choice([20.0, 30.0]), 270.0, 1e8]]
            chk.stratum("wind_boundary_just_inside_the_range_on_an_inclined_shot")
        base = {"shot": p, "cfg": cfg, "range_ft": R, "unit": "Foot", "step_ft": s, "extra": False}
        if rng.random() < 0.5:
            base["zero_yd"] = rng.choice([100, 200])
        a = fire(base)
        chk.count(1, ("shot", a["tid"]) if len(a["rows"]) >= 3 else None)
        variants = {
            "shorter": {"range_ft": R / 2},
            "coarser": {"step_ft": 2 * s},
            "finer": {"step_ft": s / 2},
            "longer": {"range_ft": R * 1.5},
            "extra": {"extra": True},
            "timed": {"time_step": rng.choice([0.05, 0.3])},
            "extra_finer_timed": {"extra": True, "step_ft": s / 3, "time_step": 0.1},
            "other_unit": {"unit": "Meter", "step_unit": "Yard"},
        }
        if i % 3 == 2:
            variants.update({"step_eq_max_step": {"step_ft": ms}, "step_1p5_max_step": {"step_ft": 1.5 * ms},
                             "step_below_max_step": {"step_ft": 0.75 * ms},
                             # a time step shorter than one integration step (a row every iteration)
                             "time_step_below_dt": {"time_step": 0.3 * (ms / 2.0) / p["mv_fps"]},
                             "time_step_about_dt": {"time_step": 1.7 * (ms / 2.0) / p["mv_fps"], "extra": True}})
        for vname, over in variants.items():
            sc2 = copy.deepcopy(base)
            sc2.update(over)
            b = fire(sc2)
            chk.count(1)
            chk.stratum("variant_" + vname)
            # (1) the physics: iteration i has bit-identical pre-state in both runs, for the common prefix
            ia, ib = a.get("iter_fp", []), b.get("iter_fp", [])
            ncommon = min(len(ia), len(ib))
            same_phys = ncommon >= 1 and ia[:ncommon] == ib[:ncommon]
            pairs.append({"tid": b["tid"], "ev": "Pair", "clause": "C11.PhysicsDiverged", "ok": bool(same_phys)})
            # (2) rows at common record distances are the same to float rounding
            sa, sb = base["step_ft"], sc2["step_ft"]
            ra = {round((r.distance.raw_value / 12.0) / sa): r for r in a["rows"] if int(r.flag) & 8
                  and abs((r.distance.raw_value / 12.0) / sa - round((r.distance.raw_value / 12.0) / sa)) < 1e-6}
            rb = {round((r.distance.raw_value / 12.0) / sb): r for r in b["rows"] if int(r.flag) & 8
                  and abs((r.distance.raw_value / 12.0) / sb - round((r.distance.raw_value / 12.0) / sb)) < 1e-6}
            ncmp, okrows = 0, True
            lim = min(base["range_ft"], sc2["range_ft"])
            for ka, row_a in ra.items():
                d = ka * sa
                if d > lim * (1 + 1e-12):
                    continue
                kb = d / sb
                if abs(kb - round(kb)) > 1e-9:
                    continue
                row_b = rb.get(round(kb))
                if row_b is None:
                    if a["outcome"] == "ok" and b["outcome"] == "ok":
                        okrows = False
                    continue
                ncmp += 1
                # flag may differ by event bits (extra) - compare the physical columns
                if not close_rows(tuple(row_a)[:-1], tuple(row_b)[:-1]):
                    okrows = False
            pairs.append({"tid": b["tid"], "ev": "Pair", "clause": "C11.RowDiffers", "ok": bool(okrows and ncmp >= 1)})
            # (3) extra output contains every plain row, and adds only event-flagged rows
            if over.get("extra") and sb == sa and not over.get("time_step"):
                fa = [scen.row_fp(r)[:-1] for r in a["rows"]]
                fb = {scen.row_fp(r)[:-1] for r in b["rows"]}
                pairs.append({"tid": b["tid"], "ev": "Pair", "clause": "C11.PlainRowMissingInExtra", "ok": all(x in fb for x in fa)})
                fa_s = set(fa)
                added = [r for r in b["rows"] if scen.row_fp(r)[:-1] not in fa_s]
                pairs.append({"tid": b["tid"], "ev": "Pair", "clause": "C11.ExtraRowWithoutEventFlag",
                              "ok": all(int(r.flag) & 7 for r in added)})
                if added:
                    chk.stratum("extra_added_event_rows")
                # (4) an event detected in the very iteration that crosses a record distance: the record step is aimed just
                #     short of each event row (0.3 advances before the point that detected it); the plain row interpolated at
                #     that distance must still be in the extra-data output, which flags it as the event as well
                if not over.get("step_ft"):
                    for ev_row in [r for r in b["rows"] if int(r.flag) & 7 and not int(r.flag) & 8][:3]:
                        xe = ev_row.distance.raw_value / 12.0
                        adv = (ms / 2.0) * 0.3
                        if xe - adv <= ms:
                            continue
                        al = copy.deepcopy(base)
                        al.update({"step_ft": xe - adv, "range_ft": xe + 2 * ms, "extra": False})
                        pa = fire(al)
                        al2 = dict(copy.deepcopy(al), extra=True)
                        pb_ = fire(al2)
                        fa = [scen.row_fp(r)[:-1] for r in pa["rows"]]
                        fb = {scen.row_fp(r)[:-1] for r in pb_["rows"]}
                        both = [r for r in pb_["rows"] if int(r.flag) & 7 and int(r.flag) & 8]
                        pairs.append({"tid": pb_["tid"], "ev": "Pair", "clause": "C11.PlainRowMissingInExtra", "ok": all(x in fb for x in fa)})
                        chk.count(1, ("aligned", pb_["tid"]))
                        if both:
                            chk.stratum("event_on_a_recording_step")
                    # (5) a request shorter than its recording step: the plain result is the muzzle row plus the closing row;
                    #     the extra-data result of the same request must keep both and add the event rows in between
                    ev_rows = [r for r in b["rows"] if int(r.flag) & 7 and not int(r.flag) & 8]
                    if ev_rows and ev_rows[0].distance.raw_value / 12.0 > ms:
                        xe = ev_rows[0].distance.raw_value / 12.0
                        sh = copy.deepcopy(base)
                        sh.update({"range_ft": xe + 2 * ms, "step_ft": 3 * (xe + 2 * ms), "extra": False})
                        pa = fire(sh)
                        pb_ = fire(dict(copy.deepcopy(sh), extra=True))
                        fa = [scen.row_fp(r)[:-1] for r in pa["rows"]]
                        fb = {scen.row_fp(r)[:-1] for r in pb_["rows"]}
                        pairs.append({"tid": pb_["tid"], "ev": "Pair", "clause": "C11.PlainRowMissingInExtra", "ok": all(x in fb for x in fa)})
                        chk.count(1, ("short", pb_["tid"]))
                        if any(int(r.flag) & 7 for r in pb_["rows"]):
                            chk.stratum("request_shorter_than_step_with_event")
                        # ... and the same with the range ending right at the event: the crossing is detected on the LAST iteration
                        # of the loop, and the closing row follows it at once
                        sh2 = copy.deepcopy(base)
                        sh2.update({"range_ft": xe - 0.25 * ms, "step_ft": 3 * xe, "extra": True})
                        fire(sh2)
                        chk.count(1)
    loopsuite.validate(chk, "C11", outs, pairs)
    chk.sample({"base": outs[0]["sc"], "variant": outs[1]["sc"], "pair_lines": pairs[:2]})
    chk.sample({"tlc_behaviour": {k: v for k, v in behs[0].items() if k != "consts"}})
    chk.require_strata(["wind_boundary_just_inside_the_range_on_an_inclined_shot", "variant_time_step_below_dt", "variant_step_below_max_step", "variant_step_eq_max_step", "variant_shorter", "variant_coarser", "variant_finer", "variant_extra", "variant_timed", "extra_added_event_rows", "event_on_a_recording_step", "request_shorter_than_step_with_event"])
    chk.exhaustive = False
    chk.rule.append("design: Integrator.tla twin recorders (rows lie on the polyline of iteration points that no recorder influences); "
                    "spec->code: row emission rule of TLC behaviours on the real filter; code->spec: seeded real shots, each fired with "
                    "8 request variants (shorter/longer range, coarser/finer step, extra, time step, combinations, other units): iteration "
                    "pre-states bit-identical, rows at common distances equal to 64 ulp, extra = plain + event rows; "
                    "non-trivial = a base call with >= 3 rows")
    chk.assumptions += ["rows at common distances compared to 64 ulps (interpolation ratio uses an accumulated record distance)"]
