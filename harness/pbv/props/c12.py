"""C12 - wind acts by segment, in order of distance, symmetrically and causally."""
from __future__ import annotations

import copy
import random

from pbv import core, lattice, integ, loopsuite, scen, shots


def fp(o):
    return [scen.row_fp(r) for r in o["rows"]]


def base_scenario(rng, thorough, tid, winds):
    p = shots.gen_shot(rng, winds=0, spin=False, look=rng.choice([0.0, 0.0, 4.0, -7.0]))
    p["winds"] = winds
    cfg = {"max_calc_step_size_feet": rng.choice([1.0, 2.0, 4.0])} if not (thorough and rng.random() < 0.2) else None
    rng_ft = rng.choice([300.0, 900.0, 1500.0, 2400.0])
    return {"shot": p, "cfg": cfg, "tid": tid, "range_ft": rng_ft, "unit": "Foot", "step_ft": rng_ft / rng.choice([5, 10, 12]),
            "extra": rng.random() < 0.3}


def run(chk: core.Check, replay=None) -> None:
    core.use_repo()
    thorough = chk.tier == "thorough"
    loopsuite.design(chk, "C12")
    # unbounded design-level safety of the sock (arbitrary integer segment ends and reading positions) as an inductive
    # invariant with Apalache (~4 s per obligation; the quick tier runs it too), and its deviation refuted
    core.apalache(chk, "SockInd", [(("--init=Init", "--inv=IndInv", "--length=0"), "ok"),
                                   (("--init=InitInd", "--inv=IndInv", "--length=1"), "ok"),
                                   (("--init=InitInd", "--inv=SegmentCorrect", "--length=0"), "ok"),
                                   (("--init=InitInd", "--inv=CursorMonotone", "--length=0"), "ok"),
                                   (("--init=Init", "--next=NextIf", "--inv=SegmentCorrect", "--length=3"), "violation")],
                  "Apalache inductive invariant SockInd (3 segments, unbounded ends and positions)")
    lattice.replay(chk, "C12", thorough)          # exact spec -> code replay of whole fire() results
    behs = loopsuite.gen_behaviours(chk, 2000 if thorough else 300, chk.seed + 12)
    loopsuite.object_replay(chk, "C12", behs)
    rng = random.Random(chk.seed * 13 + 12)
    n = 60 if thorough else 8
    outs, pairs = [], []
    tid = 0

    def fire(sc):
        nonlocal tid
        tid += 1
        sc = dict(sc)
        sc["tid"] = tid
        o = scen.run_fire(sc, tid)
        outs.append(o)
        chk.count(1, ("shot", tid) if len(sc["shot"]["winds"]) >= 1 else None)
        return o

    def pair(o, clause, ok, **info):
        pairs.append({"tid": o["tid"], "ev": "Pair", "clause": clause, "ok": bool(ok)})
        o.setdefault("pair_info", []).append({"clause": clause, "ok": bool(ok), **info})
        chk.stratum("pair_" + clause.split(".")[1])

    # ---- a lone wind with a finite end: equal to the same wind followed by an explicit calm segment, and the monitor's
    #      per-iteration segment clause sees the switch to calm
    for i in range(max(2, n // 4)):
        w1 = scen.wind_list(rng, "lone")
        sc = base_scenario(rng, thorough, 0, w1)
        a1 = fire(sc)
        sc2 = copy.deepcopy(sc)
        sc2["shot"]["winds"] = w1 + [[0.0, 0.0, 1e8]]
        b1 = fire(sc2)
        pair(b1, "C12.NoneBeyondTheLast", a1["outcome"] == b1["outcome"] and fp(a1) == fp(b1), partner=a1["tid"])
        chk.stratum("lone_wind_with_finite_end")
    for i in range(n):
        # ---- plain multi-segment lists (shuffled, duplicates, zero-length, zero-speed, beyond range)
        w = scen.wind_list(rng, "multi")
        sc = base_scenario(rng, thorough, 0, w)
        a = fire(sc)
        if len({x[2] for x in w}) < len(w):
            chk.stratum("duplicate_until")
        if any(x[2] == 0.0 for x in w):
            chk.stratum("zero_until")
        if a["summ"].get("seg_switches", 0) >= 1:
            chk.stratum("switch_inside_range")
        # ---- order insensitivity (only when the until-distances are distinct: equal ends leave the order open)
        if len({x[2] for x in w}) == len(w):
            sc2 = copy.deepcopy(sc)
            sc2["shot"]["winds"] = list(reversed(w))
            b = fire(sc2)
            pair(b, "C12.OrderInsensitive", a["outcome"] == b["outcome"] and fp(a) == fp(b), partner=a["tid"])
        # ---- causality: change everything beyond the end of the first (sorted) segment
        ws = sorted(w, key=lambda x: x[2])
        D = ws[0][2]
        if 0 < D < sc["range_ft"]:
            sc3 = copy.deepcopy(sc)
            sc3["shot"]["winds"] = [ws[0]] + [[round(rng.uniform(5, 80), 1), round(rng.uniform(0, 360), 1), x[2] + 10.0 * (j + 1)]
                                              for j, x in enumerate(ws[1:])] + [[33.0, 77.0, 1e8]]
            c = fire(sc3)
            ra = [scen.row_fp(r) for r in a["rows"] if (r.distance.raw_value / 12.0) <= D]
            rc = [scen.row_fp(r) for r in c["rows"] if (r.distance.raw_value / 12.0) <= D]
            ia, ic = a.get("iter_fp", []), c.get("iter_fp", [])
            same_iters = True
            for j in range(min(len(ia), len(ic))):
                if j > 0 and ia[j - 1][0].x >= D:
                    break
                if ia[j] != ic[j]:
                    same_iters = False
                    break
            pair(c, "C12.Causal", ra == rc and same_iters and len(ra) >= 1, partner=a["tid"], D=D, rows_upto_D=len(ra))
        # ---- mirror: negate all directions
        wm = [[x[0], -x[1], x[2]] for x in w]
        sc4 = copy.deepcopy(sc)
        sc4["shot"]["winds"] = wm
        dd = fire(sc4)
        okm = a["outcome"] == dd["outcome"] and len(a["rows"]) == len(dd["rows"])
        if okm:
            for r1, r2 in zip(a["rows"], dd["rows"]):
                f1, f2 = scen.row_fp(r1), scen.row_fp(r2)
                # fields: 7 = windage, 8 = windage_adj are negated, everything else bit-identical
                for k_, (x1, x2) in enumerate(zip(f1, f2)):
                    if k_ in (7, 8):
                        if float.fromhex(x1) != -float.fromhex(x2):
                            okm = False
                    elif x1 != x2:
                        okm = False
        pair(dd, "C12.Mirror", okm, partner=a["tid"])
    # ---- mirror symmetry with spin drift in play (right/left twist, bullet dimensions): "spin drift aside" - the state the
    # solver integrates (before spin drift is added to the rows) must mirror exactly: x, y, t, vx, vy identical, z and vz negated
    for i in range(max(2, n // 3)):
        p = shots.gen_shot(rng, winds=0, spin=True, look=rng.choice([0.0, 3.0]))
        p.update({"weight_gr": 168, "diameter_in": 0.308, "length_in": 1.2, "twist_in": rng.choice([10, -9])})
        w = scen.wind_list(rng, "multi")
        sc = {"shot": dict(p, winds=w), "cfg": {"max_calc_step_size_feet": 2.0}, "range_ft": 900.0, "unit": "Foot", "step_ft": 300.0, "extra": False}
        a = fire(sc)
        sc2 = copy.deepcopy(sc)
        sc2["shot"]["winds"] = [[x[0], -x[1], x[2]] for x in w]
        b = fire(sc2)
        ia, ib = a.get("iter_fp", []), b.get("iter_fp", [])
        ok = len(ia) == len(ib) and len(ia) > 0
        if ok:
            for (ra, va, ta), (rb, vb, tb) in zip(ia, ib):
                if not (ra.x == rb.x and ra.y == rb.y and ta == tb and va.x == vb.x and va.y == vb.y and ra.z == -rb.z and va.z == -vb.z):
                    ok = False
                    break
        pair(b, "C12.Mirror", ok, partner=a["tid"], what="iteration states with spin drift in play")
        chk.stratum("mirror_with_spin")
    # ---- zero wind / empty list / no wind, and the sign conventions
    # earlier in the same process the caller edited, in place, the wind objects an UNRELATED shot without winds reported
    # (shot.winds[0].velocity = ...): whatever a shot hands out belongs to that shot - every later shot given no wind, an
    # empty list or None through the setter is still calm
    import py_ballisticcalc as m_
    for how in ("ctor-none", "ctor-empty", "setter-none", "setter-empty"):
        other = shots.build_shot(shots.gen_shot(rng, winds=0, look=0.0))
        if how == "ctor-empty":
            other = m_.Shot(other.weapon, other.ammo, winds=[])
        elif how == "setter-none":
            other.winds = None
        elif how == "setter-empty":
            other.winds = []
        for w_ in other.winds:
            w_.velocity = m_.Unit.MPH(40)
            w_.direction_from = m_.Unit.Degree(90)
            w_.until_distance = m_.Unit.Foot(1e8)
    chk.stratum("default_wind_of_another_shot_edited")
    for i in range(max(2, n // 3)):
        sc = base_scenario(rng, thorough, 0, [])
        none = fire(sc)
        for wl in ([[0.0, 135.0, 1e8]], [[0.0, 90.0, 200.0], [0.0, 270.0, 1e8]]):
            s2 = copy.deepcopy(sc)
            s2["shot"]["winds"] = wl
            z = fire(s2)
            pair(z, "C12.ZeroWindEqualsNoWind", fp(z) == fp(none) and z["outcome"] == none["outcome"], partner=none["tid"])
        sp = rng.choice([10.0, 25.0, 44.0])
        res = {}
        for name, deg in (("left", 90.0), ("right", 270.0), ("tail", 0.0), ("head", 180.0)):
            s2 = copy.deepcopy(sc)
            s2["shot"]["winds"] = [[sp, deg, 1e8]]
            res[name] = fire(s2)
        import py_ballisticcalc as m
        wl_ = [r.windage.raw_value for r in res["left"]["rows"][1:]]
        wr_ = [r.windage.raw_value for r in res["right"]["rows"][1:]]
        pair(res["left"], "C12.Signs", bool(wl_) and all(v > 0 for v in wl_), what="wind from the left deflects right", partner=none["tid"])
        pair(res["right"], "C12.Signs", bool(wr_) and all(v < 0 for v in wr_), what="wind from the right deflects left", partner=none["tid"])
        if all(res[k]["outcome"] == "ok" for k in ("tail", "head")) and none["outcome"] == "ok":
            t = {k: res[k]["rows"][-1].time for k in ("tail", "head")}
            h = {k: res[k]["rows"][-1].height.raw_value for k in ("tail", "head")}
            t0, h0 = none["rows"][-1].time, none["rows"][-1].height.raw_value
            same_d = res["tail"]["rows"][-1].distance.raw_value == none["rows"][-1].distance.raw_value == res["head"]["rows"][-1].distance.raw_value
            # the statement fixes no direction (on an inclined line of fire the drag direction effect outweighs the
            # time-of-flight effect on drop): head and tail wind must move each quantity in OPPOSITE senses
            opp = lambda a_, b_, c_: (a_ - c_) * (b_ - c_) < 0
            # ... and the drop only on a level line of fire: on an inclined one the drag-direction effect (the air-relative
            # velocity is steeper / flatter than the ground velocity) competes with the time-of-flight effect and both
            # winds can raise the impact (1124 fps, 4 deg look angle, 25 fps: +0.005 in and +0.1 in)
            level = sc["shot"]["look_deg"] == 0.0
            pair(res["tail"], "C12.Signs", same_d and opp(t["tail"], t["head"], t0) and (not level or opp(h["tail"], h["head"], h0)),
                 what="head and tail winds move drop and time of flight in opposite senses", partner=none["tid"])
    # ---- the wind list of a shot that has ALREADY been fired is edited in place (the Wind objects trade until-distances, so
    #      their order by distance changes; a segment is moved in front of / behind the others): the next fire of the same shot
    #      follows the list as it stands - what a freshly built shot with equal winds gives
    import py_ballisticcalc as m
    U = m.Unit
    for i in range(24 if thorough else 6):
        core.reset_world()
        pbase = shots.gen_shot(rng, winds=0, spin=False, look=0.0)
        spec_w = [[rng.choice([10.0, 20.0]), 90.0, 300.0], [rng.choice([15.0, 25.0]), 270.0, 800.0], [12.0, 0.0, 1500.0]][: 2 + i % 2]

        def mk(spec):
            ws = [m.Wind(U.MPH(a), U.Degree(b), U.Yard(c)) for a, b, c in spec]
            sh = shots.build_shot(dict(pbase, winds=[]))
            if i % 2:
                sh.winds = ws
            else:
                sh = m.Shot(sh.weapon, sh.ammo, atmo=sh.atmo, winds=ws)
            return sh, ws
        rows_of = lambda sh: [scen.row_fp(r) for r in shots.build_calc({"max_calc_step_size_feet": 2.0}).fire(sh, U.Yard(1000), U.Yard(100)).trajectory]
        shot1, ws1 = mk(spec_w)
        before = rows_of(shot1)
        kind = i % 3
        if kind == 0:      # first and second trade their ends
            ws1[0].until_distance, ws1[1].until_distance = ws1[1].until_distance, ws1[0].until_distance
            now = [[spec_w[0][0], spec_w[0][1], spec_w[1][2]], [spec_w[1][0], spec_w[1][1], spec_w[0][2]]] + spec_w[2:]
        elif kind == 1:    # the nearest segment is moved behind all the others
            ws1[0].until_distance = U.Yard(2000)
            now = [[spec_w[0][0], spec_w[0][1], 2000.0]] + spec_w[1:]
        else:              # the farthest segment is moved in front, given in another unit
            ws1[-1].until_distance = U.Meter(150)
            now = spec_w[:-1] + [[spec_w[-1][0], spec_w[-1][1], 150.0 / 0.9144]]
        after = rows_of(shot1)
        fresh_shot, _ = mk(now)
        if kind == 2:
            fresh_shot.winds[0].until_distance = U.Meter(150)
        fresh = rows_of(fresh_shot)
        chk.count(1, ("edited-winds", i))
        chk.stratum("wind_ends_edited_in_place_after_a_fire")
        if after != fresh:
            first = next((j for j, (a_, b_) in enumerate(zip(after, fresh)) if a_ != b_), None)
            chk.violation("C12.EditedWindListNotFollowed", {"source": "edited-winds", "kind": ["ends-traded", "first-moved-behind", "last-moved-in-front"][kind],
                                                            "via_setter": bool(i % 2)},
                          {"winds_before": spec_w, "winds_now": now, "first_differing_row": first, "unchanged_by_the_edit": after == before})
    # ---- two holders of ONE wind list (a shot built from the caller's list and a shallow copy of that shot / a second shot built
    #      from the same list): the winds of one are re-assigned through the setter - mirrored - and both are fired: the first still
    #      flies in the winds it was given, the second in the mirrored ones (windage negated, twist 0)
    import copy as _copy
    for i in range(6 if thorough else 3):
        core.reset_world()
        pbase = shots.gen_shot(rng, winds=0, spin=False, look=0.0)
        L = [m.Wind(U.MPH(10), U.Degree(90), U.Yard(300)), m.Wind(U.MPH(15), U.Degree(60), U.Yard(2000))]
        mirrored = [m.Wind(U.MPH(10), U.Degree(-90), U.Yard(300)), m.Wind(U.MPH(15), U.Degree(-60), U.Yard(2000))]
        base = shots.build_shot(dict(pbase, winds=[]))
        ref = m.Shot(base.weapon, base.ammo, atmo=base.atmo, winds=L)
        rows_of = lambda sh: [scen.row_fp(r) for r in shots.build_calc({"max_calc_step_size_feet": 2.0}).fire(sh, U.Yard(600), U.Yard(100)).trajectory]
        windage_of = lambda sh: [r.windage.raw_value for r in shots.build_calc({"max_calc_step_size_feet": 2.0}).fire(sh, U.Yard(600), U.Yard(100)).trajectory]
        before = rows_of(ref)
        other = _copy.copy(ref) if i % 2 == 0 else m.Shot(base.weapon, base.ammo, atmo=base.atmo, winds=L)
        other.winds = mirrored
        after = rows_of(ref)
        wa, wb = windage_of(ref), windage_of(other)
        chk.count(1, ("shared-wind-list", i))
        chk.stratum("two_shots_holding_one_wind_list")
        if after != before:
            chk.violation("C12.WindsOfAnotherShotChangedThisOne", {"source": "shared-wind-list", "second_holder": "copy" if i % 2 == 0 else "same-list"},
                          {"first_differing_row": next((j for j, (a_, b_) in enumerate(zip(after, before)) if a_ != b_), None)})
        elif [-x_ for x_ in wb] != wa or not all(x_ > 0 for x_ in wa[1:]):
            chk.violation("C12.Mirror", {"source": "shared-wind-list", "second_holder": "copy" if i % 2 == 0 else "same-list"}, {"windage": wa, "mirrored": wb})
    by_tid = loopsuite.validate(chk, "C12", outs, pairs)
    for o in outs:
        if o["tid"] in by_tid and o.get("pair_info"):
            pass
    chk.sample({"scenario": outs[0]["sc"], "projected_lines": outs[0]["summ"].get("lines"), "iter_line": next(
        (l for l in outs[0]["lines"] if l["ev"] == "Iter"), None)})
    chk.sample({"pair_lines": pairs[:3]})
    chk.sample({"tlc_behaviour": {k: v for k, v in behs[0].items() if k != "consts"}})
    chk.require_strata(["two_shots_holding_one_wind_list", "wind_ends_edited_in_place_after_a_fire", "lone_wind_with_finite_end", "default_wind_of_another_shot_edited", "obj_duplicate_wind_ends", "duplicate_until", "zero_until", "switch_inside_range", "pair_OrderInsensitive",
                        "pair_Causal", "pair_Mirror", "mirror_with_spin", "pair_ZeroWindEqualsNoWind", "pair_Signs"])
    chk.exhaustive = False
    chk.rule.append("design: Integrator.tla (C12_SegmentByPosition) on wind-end lists with duplicates, zeros and ends beyond range; "
                    "spec->code: TLC behaviours replayed into the real _WindSock (scrambled input order); code->spec: real shots with "
                    "0-4 shuffled segments validated per iteration (the wind vector used must be the documented vector of the segment "
                    "the projectile is in), plus paired runs for order-insensitivity, causality, mirror symmetry, zero-wind and sign clauses; "
                    "non-trivial = a shot with at least one wind segment")
    chk.assumptions += ["expected wind vector (s*cos d, 0, s*sin d) computed by the projection from the winds as given, 1e-9 relative",
                        "order-insensitivity is only demanded for lists with distinct until-distances",
                        "mirror/sign pairs use projectiles without spin drift and no cant"]
