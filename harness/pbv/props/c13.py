"""C13 - a quantity's magnitude is immutable and comparisons follow magnitude.

D   : Quantity.tla (display-unit state machine; hash rule "mag" holds, the pinned "asis" rule is refuted).
S->C: Gen_Quantity behaviours (TLC -simulate; every candidate successor is emitted) replayed on real quantity
      objects of every dimension: after each operation raw_value bit-identical, display unit = spec, values read
      equal to the first value ever read for (object, unit), comparisons/hash per magnitude, foreign reads raise.
"""
from __future__ import annotations

import math
import operator
import random

from pbv import core, impl, units as UA

PAIRS = [("distance", "temperature"), ("angular", "velocity"), ("weight", "pressure"), ("velocity", "distance"),
         ("temperature", "weight"), ("pressure", "angular"), ("energy", "distance")]
SLOT = {"distance": "sight_height", "angular": "angular", "velocity": "velocity", "temperature": "temperature",
        "pressure": "pressure", "weight": "weight", "energy": "energy"}


_PARAMS = {}


def library_params(m):
    """dimension -> [(parameter name, call)]: EVERY float-or-quantity parameter of the public API (the parameter table of
    Prefs.tla, obtained from TLC, bound by c07.param_builders), except the few whose call is a whole trajectory computation
    with the quantity as range; plus calls with clamping / limiting keywords"""
    if _PARAMS:
        return _PARAMS
    from pbv.props import c07
    cfg, defs = core.consts(dict(MaxOps=1, Candidates=c07.CAND))
    gen = core.run_tlc("Gen_Prefs", cfg + "SPECIFICATION GenSpec\nINVARIANT Emit\n", defs=defs, workers=1, tags=["PARAMS"],
                       simulate="num=1", depth=2, seed=1)
    builders = c07.param_builders(m)
    U = m.Unit
    heavy = ("Calculator.", "HitResult.danger_space.at_range", "set_global_max_calc_step_size")
    for pname, slot, _zero in gen.out("PARAMS")[0]:
        if pname.startswith(heavy):
            continue
        _PARAMS.setdefault(c07.DIM_OF_SLOT[slot], []).append((pname, builders[pname]))
    # keywords that limit / clamp what the caller passes: the caller's object must come out as it went in
    _PARAMS["distance"].append(("Wind.until_distance(max_distance_feet below it)",
                                lambda q: m.Wind(U.FPS(5), U.Degree(90), q, max_distance_feet=max(0.0, (q >> U.Foot) * 0.5))))
    _PARAMS["distance"].append(("Wind.until_distance(max_distance_feet above it)",
                                lambda q: m.Wind(U.FPS(5), U.Degree(90), q, max_distance_feet=abs(q >> U.Foot) * 2.0 + 1.0)))
    for d_ in ("energy",):
        _PARAMS.setdefault(d_, [])
    return _PARAMS


def pass_to_library(m, dim, q, salt=0):
    """use q as an argument of a real API call of its dimension (rotating through all of them)"""
    calls = library_params(m).get(dim) or []
    if not calls:
        getattr(m.PreferredUnits, SLOT[dim])(q)
        return "PreferredUnits." + SLOT[dim]
    name, fn = calls[salt % len(calls)]
    fn(q)
    return name


def design(chk, maxops):
    d = dict(UnitsA='{"a1", "a2", "a3"}', UnitsB='{"b1", "b2"}', MagA1=5, MagA2=5, MagB=5, PrefA='"a2"', PrefB='"b2"',
             HashRule='"mag"', MaxOps=maxops)
    body = ("SPECIFICATION Spec\nINVARIANT C13_DisplayInDimension\nINVARIANT C13_EqualHashEqual\nINVARIANT C13_HashStable\n"
            "INVARIANT C13_NoForeignValue\n")
    for ma2 in (5, 7):
        d["MagA2"] = ma2
        cfg, defs = core.consts(d)
        r = chk.tlc(core.run_tlc("Quantity", cfg + body, defs=defs, coverage=True), f"Quantity MagA2={ma2} depth {maxops}")
        for a in ("Redisplay", "GetIn", "Cmp", "Hash", "Show", "PassToLibrary"):
            if not r.coverage.get(f"Quantity.{a}"):
                raise core.MachineryError(f"Quantity.{a} never taken")
    d["HashRule"], d["MagA2"] = '"asis"', 5
    cfg, defs = core.consts(d)
    r = core.run_tlc("Quantity", cfg + "SPECIFICATION Spec\nINVARIANT C13_EqualHashEqual\nINVARIANT C13_HashStable\n", defs=defs)
    chk.tlc_runs.append({"what": "Quantity HashRule=asis (expected counterexample)", "violated": r.violated})
    if r.ok:
        raise core.MachineryError("HashRule=asis expected to be refuted")
    return d


def behaviours(chk, d, ma2, n, seed):
    d = dict(d, HashRule='"mag"', MagA2=ma2, MaxOps=8)
    cfg, defs = core.consts(d)
    r = core.run_tlc("Gen_Quantity", cfg + "SPECIFICATION GenSpec\nINVARIANT Emit\n", defs=defs, workers=1, tags=["BEH"],
                     simulate=f"num={n}", depth=9, seed=seed)
    chk.tlc_runs.append({"what": f"Gen_Quantity -simulate MagA2={ma2}", "behaviours": len(r.out("BEH"))})
    return r.out("BEH")


def replay(chk, behs, equal_mags, rng):
    m = impl.pb()
    dims = UA.dims()
    for bi, b in enumerate(behs):
        dimA, dimB = PAIRS[bi % len(PAIRS)]
        # a different (seeded) choice of the dimension's units for every behaviour: every unit gets its turn
        ua, ub = dims[dimA][:], dims[dimB][:]
        random.Random(bi * 7919 + 1).shuffle(ua)
        random.Random(bi * 104729 + 2).shuffle(ub)
        umap = {"a1": ua[0], "a2": ua[1 % len(ua)], "a3": ua[2 % len(ua)], "b1": ub[0], "b2": ub[1 % len(ub)]}
        real = {k: UA.unit_enum(v) for k, v in umap.items()}
        core.reset_world()
        setattr(m.PreferredUnits, SLOT[dimA], real["a2"])
        setattr(m.PreferredUnits, SLOT[dimB], real["b2"])
        # magnitudes: ordinary values, and (half of the time) numbers that coincide with the integer codes of Unit members
        # (the enumeration is an IntEnum: a quantity showing "15" must not be mistaken for anything to do with unit 15)
        codes = [float(int(u)) for u in m.Unit]
        if "pressure" in (dimA, dimB):
            codes = [c for c in codes if c > 0]       # a zero pressure is not a valid argument of Atmo (division by zero)
        x1 = rng.choice([1.0, 2.5, 0.3, 100.0, 17.0]) if bi % 2 else rng.choice(codes)
        if dimA == "angular":
            x1 = rng.choice([0.01, 0.3, 1.0]) if bi % 2 else rng.choice([c for c in codes if c <= 5] + [0.0])
        x2 = x1 if equal_mags else x1 * 1.4 + 0.7
        # q2 is built in q1's unit (equal: bit-identical magnitude; different: 1.4 x, i.e. MagA1 < MagA2 as in the spec)
        # and then displayed in its own initial unit
        q = {"q1": real[b["d0"]["q1"]](x1), "q2": real[b["d0"]["q1"]](x2), "q3": real[b["d0"]["q3"]](x1)}
        if not equal_mags and bi % 3 == 0 and q["q1"].raw_value != 0:
            # neighbours: q2's magnitude is the NEXT float above q1's (what the "same" value reached through another unit
            # looks like: 100 m vs 10000 cm).  Different magnitudes are different quantities: not equal, strictly ordered,
            # and whatever == says must agree with < and with hashing
            base = next(UA.unit_enum(un_) for un_ in dims[dimA]
                        if UA.unit_enum(un_)(1.0).raw_value == 1.0 and UA.unit_enum(un_)(2.0).raw_value == 2.0)
            q["q2"] = base(math.nextafter(q["q1"].raw_value, math.inf))
            if q["q2"].raw_value != math.nextafter(q["q1"].raw_value, math.inf):
                raise core.MachineryError("binding: could not build the neighbouring magnitude")
            chk.stratum("neighbouring_magnitudes")
        raw0 = {k: v.raw_value for k, v in q.items()}          # magnitudes at construction time
        q["q2"].convert(real[b["d0"]["q2"]])
        if q["q2"].raw_value != raw0["q2"]:
            chk.violation("C13.MagnitudeChanged", {"dimA": dimA, "dimB": dimB, "op": "Convert", "dim": dimA, "object": "q2"},
                          {"behaviour": b, "step": -1, "raw": q["q2"].raw_value, "raw0": raw0["q2"], "units": umap})
            continue
        dimof = {"q1": dimA, "q2": dimA, "q3": dimB}
        first_val, first_hash = {}, {}
        key0 = {"dimA": dimA, "dimB": dimB}
        sig = []
        for step, e in enumerate(b["ops"]):
            op = e["op"]
            a, qn, un = op["a"], op["q"], op["u"]
            obj = q[qn]
            sig.append(a)
            k = {**key0, "op": a, "dim": dimof[qn]}
            det = {"behaviour": b, "step": step, "units": umap}
            nontriv = len(set(sig)) >= 3
            chk.count(1, (bi, step) if nontriv else None)
            chk.stratum("op_" + a)
            if a in ("Convert", "Shl", "UnitCall"):
                U = real[un]
                before_units = obj.units
                fn = {"Convert": lambda: obj.convert(U), "Shl": lambda: obj << U, "UnitCall": lambda: U(obj)}[a]
                o = impl.outcome(fn)
                if op["err"]:
                    chk.stratum("foreign_redisplay")
                    # the statement only demands that the foreign unit never yields a number: the object may have
                    # latched the foreign display unit - put its own back so that the history continues
                    if o[0] == "ok" and obj.units != before_units:
                        obj._defined_units = before_units
                else:
                    if o[0] != "ok":
                        chk.violation("C13.RedisplayRaised", k, {**det, "exc": o[1]})
                    elif o[1] is not obj:
                        # a new object is fine as long as the magnitude is the same; keep following the original
                        if o[1].raw_value != raw0[qn]:
                            chk.violation("C13.MagnitudeChanged", k, {**det, "raw": o[1].raw_value, "raw0": raw0[qn]})
            elif a == "GetIn":
                U = real[un]
                o = impl.outcome(lambda: obj >> U)
                o2 = impl.outcome(lambda: obj.get_in(U))
                if op["err"]:
                    chk.stratum("foreign_read")
                    for oo in (o, o2):
                        if oo[0] == "ok" or not isinstance(oo[2], m.UnitConversionError):
                            chk.violation("C13.ForeignUnitYieldedNumber", k, {**det, "got": repr(oo[1])})
                    # ... and in EVERY unit of every other dimension, not only the one the behaviour names
                    own = set(dims[dimof[qn]])
                    for un_all, rec_ in UA.table().items():
                        if un_all in own:
                            continue
                        oo = impl.outcome(lambda: obj >> UA.unit_enum(un_all))
                        chk.count(1)
                        if oo[0] == "ok" or not isinstance(oo[2], m.UnitConversionError):
                            chk.violation("C13.ForeignUnitYieldedNumber", {**k, "unit": un_all}, {**det, "got": repr(oo[1]), "shown": str(obj)})
                else:
                    for oo in (o, o2):
                        if oo[0] != "ok":
                            chk.violation("C13.ReadRaised", k, {**det, "exc": oo[1]})
                        else:
                            fv = first_val.setdefault((qn, int(U)), oo[1])
                            if oo[1] != fv:
                                chk.violation("C13.ValueDependsOnHistory", k, {**det, "first": fv, "now": oo[1]})
            elif a == "Cmp":
                r_ = q[op["r"]]
                want = op["res"][0]
                # the spec's Mag is instantiated by the real magnitudes: the orders must agree (binding sanity)
                real_sign = 0 if raw0[qn] == raw0[op["r"]] else (-1 if raw0[qn] < raw0[op["r"]] else 1)
                if real_sign != want:
                    raise core.MachineryError(f"binding: spec order {want} vs real magnitudes {raw0[qn]} {raw0[op['r']]}")
                exp = {"==": want == 0, "!=": want != 0, "<": want < 0, "<=": want <= 0, ">": want > 0, ">=": want >= 0}
                # whatever == answers, equal quantities hash equally
                oeq, oh1, oh2 = impl.outcome(operator.eq, obj, r_), impl.outcome(hash, obj), impl.outcome(hash, r_)
                if oeq[0] == "ok" and bool(oeq[1]) and oh1[0] == "ok" and oh2[0] == "ok" and oh1[1] != oh2[1]:
                    chk.violation("C13.EqualQuantitiesHashDifferently", {**k, "via": "=="}, {**det, "magnitudes": [raw0[qn], raw0[op["r"]]]})
                for sym, f in (("==", operator.eq), ("!=", operator.ne), ("<", operator.lt), ("<=", operator.le),
                               (">", operator.gt), (">=", operator.ge)):
                    o = impl.outcome(f, obj, r_)
                    if o[0] != "ok" or bool(o[1]) != exp[sym]:
                        chk.violation("C13.ComparisonNotByMagnitude", {**k, "sym": sym}, {**det, "got": repr(o[1]), "want": exp[sym]})
                    # against plain numbers: the magnitude in the base unit - floats, ints where whole, and in both operand orders
                    nums = [raw0[op["r"]]] + ([int(raw0[op["r"]])] if float(raw0[op["r"]]).is_integer() and abs(raw0[op["r"]]) < 2 ** 53 else [])
                    rexp = {"==": want == 0, "!=": want != 0, "<": want > 0, "<=": want >= 0, ">": want < 0, ">=": want <= 0}
                    for num in nums:
                        o = impl.outcome(f, obj, num)
                        if o[0] != "ok" or bool(o[1]) != exp[sym]:
                            chk.violation("C13.ComparisonNotByMagnitude", {**k, "sym": sym, "with": type(num).__name__}, {**det, "got": repr(o[1])})
                        o = impl.outcome(f, num, obj)          # the number on the left: Python falls back to the reflected method
                        if o[0] != "ok" or bool(o[1]) != rexp[sym]:
                            chk.violation("C13.ComparisonNotByMagnitude", {**k, "sym": sym, "with": type(num).__name__ + " on the left"},
                                          {**det, "got": repr(o[1])})
            elif a == "Hash":
                o = impl.outcome(hash, obj)
                if o[0] != "ok":
                    chk.violation("C13.HashRaised", k, {**det, "exc": o[1]})
                else:
                    fh = first_hash.setdefault(qn, o[1])
                    if o[1] != fh:
                        chk.violation("C13.HashChangedWithDisplayUnit", k, {**det, "first": fh, "now": o[1]})
                    for other in ("q1", "q2"):
                        if other != qn and qn in ("q1", "q2") and raw0[other] == raw0[qn] and hash(q[other]) != o[1]:
                            chk.violation("C13.EqualQuantitiesHashDifferently", k, {**det, "units": [str(obj.units), str(q[other].units)]})
                            chk.stratum("hash_equal_pair")
                    if qn in ("q1", "q2") and equal_mags:
                        chk.stratum("hash_equal_pair")
            elif a == "Show":
                for f in (str, repr, float):
                    o = impl.outcome(f, obj)
                    if o[0] != "ok":
                        chk.violation("C13.ShowRaised", k, {**det, "exc": o[1]})
            elif a == "Pass":
                o = impl.outcome(pass_to_library, m, dimof[qn], obj, bi + step)
                chk.stratum("pass_rotates_over_all_parameters")
                if o[0] != "ok":
                    # the value may be physically inadmissible for that call (0 K, zero pressure): raising is the library's
                    # right; what C13 demands - the magnitude is untouched - is checked below.
                    chk.stratum("library_call_raised")
                # which unit the argument is displayed in afterwards is the call's business (the spec's "preferred unit" is what
                # most parameters do; some leave it alone, a raising call may stop half way) - as long as it is a unit of the
                # quantity's own dimension.  Align it with the spec so that the history continues.
                if obj.units.name not in dims[dimof[qn]]:
                    chk.violation("C13.DisplayUnitOutsideDimension", k, {**det, "call": o[1] if o[0] == "ok" else "raised", "got": str(obj.units)})
                obj._defined_units = real[e["disp"][qn]]
            # ---- after every operation: magnitudes untouched, display units as the spec says
            for name, ob in q.items():
                if ob.raw_value != raw0[name] or type(ob.raw_value) is not type(raw0[name]):
                    chk.violation("C13.MagnitudeChanged", {**k, "object": name}, {**det, "raw": ob.raw_value, "raw0": raw0[name]})
                if ob.units != real[e["disp"][name]]:
                    chk.violation("C13.DisplayUnitNotAsSpecified", {**k, "object": name},
                                  {**det, "got": str(ob.units), "want": umap[e["disp"][name]]})
    chk.traces += len(behs)


def run(chk: core.Check, replay_path=None, **_):
    core.use_repo(hooks=False)
    core.reset_world()
    thorough = chk.tier == "thorough"
    d = design(chk, 4 if thorough else 3)
    rng = random.Random(chk.seed + 13)
    n = 400 if thorough else 40
    for ma2 in (5, 7):
        behs = behaviours(chk, d, ma2, n, chk.seed + ma2)
        rng.shuffle(behs)
        behs = behs[: (20000 if thorough else 2500)]
        replay(chk, behs, ma2 == 5, rng)
        chk.sample({"behaviour": behs[0]})
    core.reset_world()
    chk.require_strata(["pass_rotates_over_all_parameters", "neighbouring_magnitudes", "op_Convert", "op_Shl", "op_UnitCall", "op_GetIn", "op_Cmp", "op_Hash", "op_Show", "op_Pass",
                        "foreign_read", "foreign_redisplay", "hash_equal_pair"])
    chk.exhaustive = False
    chk.rule.append("design: Quantity.tla exhaustively to depth 3/4 (equal and different magnitudes); spec->code: TLC-simulated "
                    "behaviours of 8 operations (every candidate successor) replayed on real quantities, rotating over the 7 "
                    "dimensions; non-trivial = a step of a behaviour that already used >= 3 different operations")
    chk.assumptions += ["a re-display in a foreign unit may raise or latch (the statement only forbids yielding a number); the harness "
                        "restores the object's own unit afterwards", "cross-dimension comparisons are not demanded either way"]
