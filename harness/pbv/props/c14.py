"""C14 - multi-BC drag models realise the interpolated BC and leave inputs intact.

D   : MultiBC.tla - heap of data-point objects, Build from the standard table or from another model's table;
      law realised, no input mutation, shared model unaffected, idempotent, order-insensitive; the pinned in-place
      rule ("asis") is refuted.
S->C: Gen_MultiBC build histories replayed on real objects with heap snapshots (every DragDataPoint identity /
      Mach / CD, every BCPoint, dict tables, shipped-table digests) and the exact rational multipliers of every model.
"""
from __future__ import annotations

import copy
import random
from fractions import Fraction

from pbv import core, impl, tables, units as UA

STD_CD = [0.2, 0.4, 0.3, 0.25, 0.22, 0.21, 0.2]
POINT_LISTS = ("{ <<<<30, 2>>>>, <<<<20, 0>>, <<30, 4>>>>, <<<<30, 4>>, <<20, 0>>>>, <<<<50, 3>>, <<20, 1>>, <<30, 7>>>>, "
               "<<<<30, 7>>, <<50, 3>>, <<20, 1>>>>, <<<<20, 2>>, <<50, 6>>>>, <<<<25, 8>>, <<45, 5>>>>, "
               "<<<<20, 2>>, <<50, 4>>, <<30, 8>>>>, <<<<30, 0>>, <<20, 4>>, <<50, 6>>>>, "   # these two: end points ON table nodes
               "<<<<30, 1>>, <<20, 4>>, <<30, 7>>>>, <<<<30, 7>>, <<30, 1>>, <<45, 3>>>> }")    # a BC curve that dips (rises) and RETURNS to the same value
# a COARSE table (nodes 2 Mach apart) with 4 and 5 BC points, two or three of them strictly between the same pair of table rows,
# in ascending, descending and scrambled order
POINT_LISTS_COARSE = ("{ <<<<20, 1>>, <<30, 5>>, <<50, 6>>, <<25, 11>>>>, <<<<25, 11>>, <<50, 6>>, <<30, 5>>, <<20, 1>>>>, "
                      "<<<<30, 1>>, <<20, 2>>, <<50, 3>>, <<40, 9>>, <<25, 12>>>>, <<<<40, 9>>, <<30, 1>>, <<25, 12>>, <<50, 3>>, <<20, 2>>>>, "
                      "<<<<45, 5>>, <<20, 7>>, <<35, 10>>, <<50, 11>>>>, <<<<20, 0>>, <<50, 9>>, <<30, 10>>, <<40, 11>>, <<25, 12>>>>, "
                      "<<<<40, 1>>, <<25, 5>>, <<30, 6>>, <<40, 11>>>> }")
SOUND = None


def sound_mps():
    """documented sea-level speed of sound used for velocity-given BC points: sqrt(15 C in K) * 20.0467"""
    import math
    return math.sqrt(15.0 + 273.15) * 20.0467


def design(chk, builds, coarse=False):
    d = dict(G=3 if coarse else 4, PointLists=POINT_LISTS_COARSE if coarse else POINT_LISTS, Stride=2 if coarse else 1,
             AllocRule='"fresh"', MaxBuilds=builds)
    body = ("SPECIFICATION Spec\nINVARIANT C14_RealisesLaw\nPROPERTY C14_NoInputMutation\nPROPERTY C14_SharedModelUnaffected\n"
            "INVARIANT C14_Idempotent\nINVARIANT C14_OrderInsensitive\n")
    cfg, defs = core.consts(d)
    chk.tlc(core.run_tlc("MultiBC", cfg + body, defs=defs, coverage=True), f"MultiBC {builds} builds" + (" (coarse table)" if coarse else ""))
    if coarse:
        return d
    cfg, defs = core.consts(dict(d, AllocRule='"asis"', MaxBuilds=2))
    r = core.run_tlc("MultiBC", cfg + "SPECIFICATION Spec\nPROPERTY C14_NoInputMutation\nPROPERTY C14_SharedModelUnaffected\n", defs=defs)
    chk.tlc_runs.append({"what": "MultiBC AllocRule=asis (expected counterexample)", "violated": r.violated})
    if r.ok:
        raise core.MachineryError("AllocRule=asis expected to be refuted")
    return d


def snapshot(m, objs):
    """deep value snapshot of everything a build must not alter"""
    snap = {}
    for name, o in objs.items():
        if isinstance(o, list) and o and isinstance(o[0], dict):
            snap[name] = ("dicts", [(id(p), p["Mach"], p["CD"]) for p in o])
        elif isinstance(o, list) and o and isinstance(o[0], m.DragDataPoint):
            snap[name] = ("points", [(id(p), p.Mach, p.CD) for p in o])
        elif isinstance(o, list):
            snap[name] = ("bcpoints", sorted((id(p), p.BC, p.Mach, p.V.raw_value) for p in o))
    return snap


def replay(chk, behs, rng, G=4, stride=1):
    m = impl.pb()
    U = m.Unit
    c_mps = sound_mps()
    vel_units = ["MPS", "FPS", "KMH", "MPH", "KT"]
    for bi, b in enumerate(behs):
        core.reset_world()
        std = [{"Mach": float(k * stride), "CD": STD_CD[k]} for k in range(G + 1)]
        objs = {"std": std}
        models, depth, modelbc, tols = [], [], [], []
        with_sd = bi % 3 == 1
        for step, e in enumerate(b):
            pts, src = e["pts"], e["src"]
            mode = (bi + step) % 3
            if bi % 2:
                # "points by velocity in any unit": whatever the preferred units are when the points and the model are built
                # (they change from step to step; every argument carries its unit)
                m.PreferredUnits.velocity = UA.unit_enum(vel_units[(bi // 2 + step) % 5])
                m.PreferredUnits.weight = [U.Grain, U.Gram, U.Pound][(bi // 2 + step) % 3]
                m.PreferredUnits.diameter = [U.Inch, U.Millimeter, U.Centimeter][(bi // 2 + step + 1) % 3]
                chk.stratum("preferred_units_changed_between_builds")
            bcps = []
            tol = 1e-9
            for bc100, p2 in pts:
                mach = p2 / 2.0
                if mode == 0 or mach == 0:
                    bcps.append(m.BCPoint(bc100 / 100.0, Mach=mach) if mach != 0 else m.BCPoint(bc100 / 100.0, Mach=1e-12))
                else:
                    vu = vel_units[(bi + step + p2) % 5]
                    VU = UA.unit_enum(vu)
                    if vu != "MPS":
                        # the library's own unit factors differ from SI by up to 1e-6 (C06): the Mach number of a
                        # velocity-given point is only that accurate, and so is the law near it
                        tol = 1e-5
                    bcps.append(m.BCPoint(bc100 / 100.0, V=VU(float(UA.convert("MPS", vu, 1)) * mach * c_mps)))
            objs[f"bcps{step}"] = bcps
            table_arg = std if src == 0 else models[src - 1].drag_table
            if src == 0 and mode == 2:
                table_arg = [m.DragDataPoint(p["Mach"], p["CD"]) for p in std]   # caller-owned data points
                objs[f"callerpts{step}"] = table_arg
            before = snapshot(m, objs)
            kwargs = {"weight": U.Grain(168), "diameter": U.Inch(0.308), "length": U.Inch(1.2)} if with_sd else {}
            o = impl.outcome(m.DragModelMultiBC, bcps, table_arg, **kwargs)
            key = {"src": "standard" if src == 0 else "other-model", "table_as": "dicts" if table_arg is std else "datapoints",
                   "with_sectional_density": with_sd}
            det = {"history": b, "step": step}
            chk.count(1, (bi, step) if len(pts) >= 2 else None)
            chk.stratum("build_from_" + key["src"])
            chk.stratum("table_as_" + key["table_as"])
            if o[0] != "ok":
                chk.violation("C14.BuildRaised", key, {**det, "exc": o[1], "text": str(o[2])[:200]})
                break
            mdl = o[1]
            models.append(mdl)
            objs[f"model{step}"] = mdl.drag_table
            depth.append(1 + (depth[src - 1] if src else 0))
            tols.append(max(tol, tols[src - 1] if src else 0.0))
            modelbc.append(mdl.BC * (modelbc[src - 1] if src else 1.0))
            after = snapshot(m, {k: v for k, v in objs.items() if k in before})
            for name in before:
                if before[name] != after[name]:
                    chk.violation("C14.InputMutated", {**key, "what": name.rstrip("0123456789")}, {**det, "object": name,
                                  "before": before[name][1][:3], "after": after[name][1][:3]})
            # ---- every model so far has exactly the multipliers the spec says (none may have changed)
            for i, mdl_i in enumerate(models):
                want = e["mults"][i]
                for k in range(G + 1):
                    got = mdl_i.drag_table[k].CD / (STD_CD[k] * modelbc[i])
                    w = float(Fraction(want[k][0], want[k][1])) * (100.0 ** depth[i])
                    if abs(got - w) > tols[i] * abs(w):
                        cl = "C14.LawNotRealised" if i == len(models) - 1 else "C14.OtherModelChanged"
                        chk.violation(cl, key, {**det, "model": i, "node": k, "got_multiplier": got, "want": w})
                        break
            if len(pts) == 1:
                chk.stratum("single_point")
        chk.traces += 1


def single_equals_plain(chk, rng):
    """with a single BC value the multi-BC model is equivalent to the plain model (same retardation at any Mach)"""
    m = impl.pb()
    for name in ("G1", "G7", "RA4"):
        t = getattr(m, "Table" + name)
        bc = rng.choice([0.223, 0.31, 0.5])
        for kw in ({}, {"weight": m.Unit.Grain(175), "diameter": m.Unit.Inch(0.308), "length": m.Unit.Inch(1.24)}):
            a = m.DragModelMultiBC([m.BCPoint(bc, Mach=rng.choice([0.9, 2.0]))], t, **kw)
            b = m.DragModel(bc, t, **{k: v for k, v in kw.items()})
            ca, cb = m.Calculator(), m.Calculator()
            ca._calc._init_trajectory(m.Shot(weapon=m.Weapon(), ammo=m.Ammo(a, m.Unit.FPS(2600))))
            cb._calc._init_trajectory(m.Shot(weapon=m.Weapon(), ammo=m.Ammo(b, m.Unit.FPS(2600))))
            ok = all(abs(ca._calc.drag_by_mach(x) - cb._calc.drag_by_mach(x)) <= 1e-12 * cb._calc.drag_by_mach(x)
                     for x in [0.0, 0.45, 0.9, 1.0, 1.13, 2.5, 4.9, 6.0])
            chk.count(1, ("single", name, bool(kw)))
            chk.stratum("single_equals_plain")
            if not ok:
                chk.violation("C14.SinglePointNotPlain", {"table": name, "with_sd": bool(kw)}, {"bc": bc})


def shipped_heap(chk, rng):
    """building from shipped tables / from another model's table (by reference) twice"""
    m = impl.pb()
    for name in ("G1", "G7"):
        t = getattr(m, "Table" + name)
        pts = lambda: [m.BCPoint(0.275, V=m.Unit.MPS(800)), m.BCPoint(0.255, V=m.Unit.MPS(500)), m.BCPoint(0.26, V=m.Unit.MPS(700))]
        a = m.DragModelMultiBC(pts(), t)
        a_cd = [p.CD for p in a.drag_table]
        b = m.DragModelMultiBC(pts(), t)
        c = m.DragModelMultiBC(pts(), a.drag_table)          # from another model's data points, by reference
        d = m.DragModelMultiBC(pts(), a.drag_table)
        chk.count(4, ("shipped", name))
        chk.stratum("shipped_heap")
        if [p.CD for p in a.drag_table] != a_cd:
            chk.violation("C14.OtherModelChanged", {"src": "other-model", "table": name}, {"first_cd_before": a_cd[:3],
                          "after": [p.CD for p in a.drag_table][:3]})
        if [p.CD for p in b.drag_table] != a_cd:
            chk.violation("C14.NotIdempotent", {"src": "standard", "table": name}, {})
        if [p.CD for p in c.drag_table] != [p.CD for p in d.drag_table]:
            chk.violation("C14.NotIdempotent", {"src": "other-model", "table": name}, {"c": [p.CD for p in c.drag_table][:3],
                          "d": [p.CD for p in d.drag_table][:3]})
    bad = tables.check_shipped()
    if bad:
        chk.violation("C14.ShippedTableChanged", {"tables": bad}, {})


def same_points_on_every_pair_of_tables(chk):
    """The same BC points (by Mach) built on one shipped table and IMMEDIATELY afterwards on another, for every ordered pair of
    the nine tables (some pairs have the same number of nodes and the same first and last Mach number but other nodes in
    between): each model realises the clamped piecewise-linear BC at the nodes of ITS OWN table (exact rationals)."""
    from fractions import Fraction as F
    m = impl.pb()
    names = ["G1", "G7", "G2", "G5", "G6", "G8", "GI", "GS", "RA4"]
    knots = [(F(8, 10), F(22, 100)), (F(12, 10), F(25, 100)), (F(25, 10), F(31, 100))]

    def law(x):
        x = F(x)
        if x <= knots[0][0]:
            return knots[0][1]
        if x >= knots[-1][0]:
            return knots[-1][1]
        for (x0, y0), (x1, y1) in zip(knots, knots[1:]):
            if x0 <= x <= x1:
                return y0 + (y1 - y0) * (x - x0) / (x1 - x0)

    def build(name):
        return m.DragModelMultiBC([m.BCPoint(float(b), Mach=float(a)) for a, b in knots], getattr(m, "Table" + name))
    for a in names:
        for b in names:
            if a == b:
                continue
            build(a)
            mb = build(b)
            std = getattr(m, "Table" + b)
            chk.count(1, ("pair-of-tables", a, b))
            chk.stratum("same_points_built_on_two_tables_in_turn")
            for pnt, row in zip(mb.drag_table, std):
                eff = row["CD"] * mb.BC / pnt.CD
                want = float(law(F(str(row["Mach"]))))
                if abs(eff - want) > 1e-9 * want:
                    chk.violation("C14.EffectiveBC", {"src": "pair-of-tables", "built_just_before": a, "table": b},
                                  {"mach": row["Mach"], "effective_bc": eff, "interpolated_bc": want})
                    break


def run(chk: core.Check, replay_path=None, **_):
    core.use_repo(hooks=False)
    core.reset_world()
    thorough = chk.tier == "thorough"
    d = design(chk, 3)
    cfg, defs = core.consts(dict(d, MaxBuilds=4 if thorough else 3))
    gen = core.run_tlc("Gen_MultiBC", cfg + "SPECIFICATION GenSpec\nINVARIANT Emit\n", defs=defs, workers=1, tags=["BEH"], timeout=1800)
    chk.tlc(gen, "Gen_MultiBC")
    behs = gen.out("BEH")
    rng = random.Random(chk.seed + 14)
    if thorough and len(behs) > 20000:
        rng.shuffle(behs)
        behs = behs[:20000]
        chk.exhaustive = False
    replay(chk, behs, rng)
    # the coarse table: 4-5 BC points, several of them between the same two table rows
    dc = design(chk, 2, coarse=True)
    cfgc, defsc = core.consts(dict(dc, MaxBuilds=2))
    genc = core.run_tlc("Gen_MultiBC", cfgc + "SPECIFICATION GenSpec\nINVARIANT Emit\n", defs=defsc, workers=1, tags=["BEH"], timeout=1800)
    chk.tlc(genc, "Gen_MultiBC (coarse table, 4-5 points)")
    replay(chk, genc.out("BEH"), rng, G=3, stride=2)
    chk.stratum("several_points_between_two_table_rows")
    single_equals_plain(chk, rng)
    shipped_heap(chk, rng)
    same_points_on_every_pair_of_tables(chk)
    chk.sample({"history": behs[len(behs) // 2]})
    chk.require_strata(["same_points_built_on_two_tables_in_turn", "several_points_between_two_table_rows", "preferred_units_changed_between_builds", "build_from_standard", "build_from_other-model", "table_as_dicts", "table_as_datapoints", "single_point",
                        "single_equals_plain", "shipped_heap"])
    chk.rule.append("every build history of %d builds over 11 point lists (1-3 points, incl. curves returning to their first BC, several orders, on and between nodes) and, on a coarse table, 6 lists of 4-5 points with several points between two table rows x source "
                    "(standard table as dicts / caller-owned data points / another model's table by reference), points by Mach or by "
                    "velocity in rotating units, with and without weight+diameter; non-trivial = a build with >= 2 BC points"
                    % (4 if thorough else 3))
    chk.assumptions += ["effective BC compared with the spec's exact rational to 1e-9 relative", "BC points have distinct Mach numbers",
                        "the order of the caller's bc_points list after the call is not demanded"]
