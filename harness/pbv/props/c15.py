"""C15 - event rows mark each sight-line and sonic crossing once, within one step."""
from __future__ import annotations

import math
import random

from pbv import core, lattice, loopsuite, scen, shots


def scenarios(rng: random.Random, n: int, thorough: bool):
    scs = []
    for i in range(n):
        mode = ["zeroed", "barrel_below", "muzzle_above", "on_line", "transonic", "subsonic", "high_arc", "inclined",
                "muzzle_above_barrel_below", "barely_supersonic_launch"][i % 10]
        p = shots.gen_shot(rng, winds=rng.choice([0, 1]), look=0.0)
        p["sight_in"] = rng.choice([1.5, 2.0, 3.2])
        sc = {"extra": True, "unit": "Foot"}
        if mode == "zeroed":
            sc["zero_yd"] = rng.choice([50, 100, 200])
        elif mode == "barrel_below":
            p["rel_rad"] = -0.002
        elif mode == "muzzle_above":
            p["sight_in"] = -1.0
            p["rel_rad"] = rng.choice([0.0, 0.001])
        elif mode == "muzzle_above_barrel_below":
            # sight below the bore and the barrel pointing below the sight line: one downward crossing, no upward one
            p["sight_in"] = rng.choice([-2.0, -0.5])
            if rng.random() < 0.5:
                sc["zero_yd"] = 25
            else:
                p["rel_rad"] = rng.choice([-0.001, -0.003])
            p["look_deg"] = rng.choice([0.0, 12.0, -7.0])
        elif mode == "on_line":
            p["sight_in"] = 0.0
            p["rel_rad"] = rng.choice([0.0005, -0.0005, 0.0])
        elif mode == "transonic":
            p["mv_fps"] = rng.choice([1150.0, 1250.0, 1400.0])
            sc["zero_yd"] = 50
        elif mode == "subsonic":
            p["mv_fps"] = rng.choice([700.0, 1000.0])
            sc["zero_yd"] = 50
        elif mode == "high_arc":
            p["mv_fps"] = rng.choice([900.0, 1500.0, 2600.0])
            p["rel_rad"] = math.radians(rng.choice([20.0, 35.0, 50.0]))
            p["bc"] = 0.15
        elif mode == "barely_supersonic_launch":
            # launched a few hundred-thousandths above the local speed of sound (read from the atmosphere of this very shot): the
            # speed falls through Mach 1 within the FIRST integration step
            import py_ballisticcalc as m_
            p["winds"] = []
            p["look_deg"] = 0.0
            snd = shots.build_shot(dict(p, winds=[])).atmo.mach >> m_.Unit.FPS
            p["mv_fps"] = snd * (1 + rng.choice([2e-5, 5e-5, 1e-4]))
            p["bc"], p["table"] = 0.2, "G1"
        elif mode == "inclined":
            p["look_deg"] = rng.choice([-30.0, -12.0, 7.0, 25.0, 45.0])
            p["rel_rad"] = rng.choice([0.001, 0.003])
        cfg = {"max_calc_step_size_feet": rng.choice([1.0, 2.0, 4.0])} if not (thorough and rng.random() < 0.25) else None
        rng_ft = rng.choice([600.0, 1200.0, 2400.0]) if mode != "high_arc" else rng.choice([1500.0, 6000.0])
        sc.update({"shot": p, "cfg": cfg, "tid": i + 1, "mode": mode, "range_ft": rng_ft,
                   "step_ft": rng_ft / rng.choice([4, 10, 24]), "extra": (i % 11 != 10)})
        if i % 7 == 3:
            sc["time_step"] = 0.05
        scs.append(sc)
    # placed: a projectile that falls through Mach 1 TWICE - a very high ballistic coefficient fired steeply upward slows through
    # Mach 1 on the way up, falls faster than the local speed of sound through the thin air, and is braked below it again lower down
    p = shots.gen_shot(rng, winds=0, look=0.0)
    p.update({"table": "G1", "bc": 3.0, "mv_fps": 3000.0, "rel_rad": math.radians(80.0), "alt_ft": 0.0, "sight_in": 2.0, "winds": [], "look_deg": 0.0,
              "temp_f": 59.0, "press_inhg": 29.92, "humidity": 0.0})
    p.pop("powder", None)
    scs.append({"extra": True, "unit": "Foot", "shot": p, "cfg": {"max_calc_step_size_feet": 8.0}, "tid": n + 1, "mode": "falls_through_mach_twice",
                "range_ft": 22000.0, "step_ft": 2000.0, "fresh_calc": True, "no_prehistory": True, "watchdog_s": 300})
    return scs


def run(chk: core.Check, replay=None) -> None:
    core.use_repo()
    import py_ballisticcalc as m
    thorough = chk.tier == "thorough"
    loopsuite.design(chk, "C15")
    lattice.replay(chk, "C15", thorough)          # exact spec -> code replay of whole fire() results
    behs = loopsuite.gen_behaviours(chk, 3000 if thorough else 400, chk.seed + 15)
    loopsuite.object_replay(chk, "C15", behs)
    rng = random.Random(chk.seed * 17 + 15)
    outs = scen.run_batch(scenarios(rng, 360 if thorough else 36, thorough))
    pairs = []
    for o in outs:
        fl = set(o.get("summ", {}).get("flags_seen", []))
        chk.count(1, ("shot", o["tid"]) if fl & {"U", "D", "M"} else None)
        for f in fl:
            chk.stratum("real_flag_" + f)
        chk.stratum("mode_" + o["sc"]["mode"])
        if o["sc"]["mode"] == "falls_through_mach_twice" and sum(1 for r in o["rows"] if int(r.flag) & 4) >= 2:
            chk.stratum("two_passages_below_mach_one")
        if abs(o["sc"]["shot"]["look_deg"]) > 1:
            chk.stratum("inclined_sight_line")
        # HitResult.zeros() must be exactly the rows flagged as zero crossings
        if o["outcome"] == "ok" and o["sc"]["extra"]:
            flagged = [r for r in o["rows"] if int(r.flag) & 3]
            try:
                z = o["hr"].zeros()
                ok = len(z) == len(flagged) and all(a is b for a, b in zip(z, flagged))
            except ArithmeticError:
                ok = not flagged
            pairs.append({"tid": o["tid"], "ev": "Pair", "clause": "C15.ZerosAccessor", "ok": bool(ok)})
            chk.stratum("zeros_accessor")
    # ---- requests that END at an event: for event rows found above, the same shot is fired with extra data to a range that
    #      makes the detecting iteration the LAST one of the loop, with a step far beyond the range (so that the closing row is
    #      appended right after it) and with an ordinary step: the event is reported once, the closing row is unflagged
    import copy
    extra_scs, tid2 = [], 900000
    for o in outs:
        if len(extra_scs) >= (60 if thorough else 8) or o["outcome"] != "ok" or not o["sc"].get("extra"):
            continue
        ms = (o["sc"].get("cfg") or {}).get("max_calc_step_size_feet", 0.5)
        for ev_row in [r for r in o["rows"] if int(r.flag) & 7 and not int(r.flag) & 8][:2]:
            xe = ev_row.distance.raw_value / 12.0
            if xe <= 2 * ms:
                continue
            for step_ft in (3 * xe, xe / 3.0):
                tid2 += 1
                sc2 = copy.deepcopy(o["sc"])
                sc2.update({"range_ft": xe - 0.25 * ms, "step_ft": step_ft, "unit": "Foot", "step_unit": "Foot", "extra": True, "tid": tid2})
                sc2.pop("time_step", None)
                extra_scs.append(sc2)
    outs_end = scen.run_batch(extra_scs)
    for o in outs_end:
        chk.count(1, ("ends_at_event", o["tid"]))
        if any(l["ev"] == "End" and l.get("tail") for l in o.get("lines", [])):
            chk.stratum("request_ends_at_an_event_with_closing_row")
    outs = outs + outs_end
    loopsuite.validate(chk, "C15", outs, pairs)
    o = next((x for x in outs if "U" in x["summ"].get("flags_seen", [])), outs[0])
    chk.sample({"scenario": o["sc"], "flag_lines": [l for l in o["lines"] if l["ev"] == "Iter" and set(l["fl"]) & {"U", "D", "M"}][:3]})
    chk.sample({"tlc_behaviour": {k: v for k, v in behs[1].items() if k != "consts"}})
    chk.require_strata(["obj_flag_U", "obj_flag_D", "obj_flag_M", "real_flag_U", "real_flag_D", "real_flag_M", "inclined_sight_line",
                        "zeros_accessor", "request_ends_at_an_event_with_closing_row", "mode_barrel_below", "mode_muzzle_above", "mode_on_line", "mode_muzzle_above_barrel_below", "mode_barely_supersonic_launch", "two_passages_below_mach_one"])
    chk.exhaustive = False
    chk.rule.append("design: Integrator.tla C15_* over every side/sup sequence of the bounded model for each muzzle/barrel configuration; "
                    "spec->code: TLC behaviours replayed into the real _TrajectoryDataFilter (flags and seen_zero after every call); "
                    "code->spec: seeded real extra-data shots (zeroed, barrel below, muzzle above/on the line, transonic, subsonic, high "
                    "arcs, inclined sight lines) validated by Trace_Integrator; non-trivial = a shot with at least one event flag")
    chk.assumptions += ["side of the sight line and super/subsonic are three-valued with a 1e-10 / 1e-12 band",
                        "'within one step': |target_drop| (resp. |1 - Mach|) of the flagged row <= the change of that quantity over the "
                        "step that crossed (two-sided: a flagged row interpolated to a record distance may lie just before the event)",
                        "a trajectory starting exactly on the sight line may or may not flag the first step (band)"]
