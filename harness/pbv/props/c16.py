"""C16 - danger space is the contiguous stretch of trajectory within the target.

D   : DangerSpace.tla - the two row-by-row scans against the statement's Admissible().
S->C: Gen_DangerSpace enumerates every small trajectory x target row x half-height with the set of
      admissible (begin, end) pairs; each is replayed into a real HitResult(extra=True).danger_space.
C->S: danger_space on real extra-data trajectories, projected to per-row classifications and
      validated by Trace_DangerSpace (same AdmissibleC operator).
"""
from __future__ import annotations

import math
import random

from pbv import core, impl, shots


def _cfg(maxlen, maxdrop, halves, rule="twosided"):
    return (f"CONSTANTS\n MaxLen = {maxlen}\n MaxDrop = {maxdrop}\n Halves = {{{', '.join(map(str, halves))}}}\n"
            f' ScanRule = "{rule}"\n')


PROPS = ("SPECIFICATION Spec\nINVARIANT C16_Admissible\nINVARIANT C16_ScanClosedForm\nINVARIANT C16_Monotone\n"
         "INVARIANT C16_BeyondIsError\nPROPERTY C16_Terminates\n")


def design(chk, maxlen, maxdrop, halves):
    r = chk.tlc(core.run_tlc("DangerSpace", _cfg(maxlen, maxdrop, halves) + PROPS, coverage=True),
                f"DangerSpace MaxLen={maxlen} MaxDrop={maxdrop} twosided")
    for act in ("BeginStep", "EndStep"):
        if not r.coverage.get(f"DangerSpace.{act}"):
            raise core.MachineryError(f"DangerSpace.{act} never taken")
    r2 = core.run_tlc("DangerSpace", _cfg(3, 2, [0, 1, 2], "asis") + "SPECIFICATION Spec\nINVARIANT C16_Admissible\n")
    chk.tlc_runs.append({"what": "DangerSpace ScanRule=asis (expected counterexample)", "violated": r2.violated})
    if r2.ok:
        raise core.MachineryError("ScanRule=asis expected to violate C16_Admissible")


REDISPLAY = ["Inch", "Yard", "Meter", "Centimeter", "Kilometer", "Foot", "Millimeter"]


def _redisplay(m, rows, salt):
    """display-history perturbation: the caller has looked at some rows in other units (`q << unit` re-labels the quantity in
    place; the magnitude - raw_value - is untouched, so the exact cases stay exact)"""
    U = m.Unit
    for k, r in enumerate(rows):
        if (k + salt) % 3 == 0:
            continue
        un = getattr(U, REDISPLAY[(k * 2 + salt) % len(REDISPLAY)])
        r.target_drop << un
        if (k + salt) % 2:
            r.distance << getattr(U, REDISPLAY[(k + salt + 3) % len(REDISPLAY)])
            r.look_distance << getattr(U, REDISPLAY[(k + salt + 4) % len(REDISPLAY)])
            r.height << un


def _rows(m, drops, salt=0):
    U = m.Unit
    # built in feet or in inches (both exact), then partly re-displayed
    rows = [impl.make_row(time=float(k), distance=U.Foot(float(k)) if (k + salt) % 2 else U.Inch(12.0 * k),
                          target_drop=U.Inch(12.0 * v) if (k + salt) % 2 else U.Foot(float(v)),
                          # rows of an extra-data trajectory are of several kinds (range, zero crossings, Mach, closing row): the
                          # danger space is about drops and distances, the kind of a row must not matter
                          flag=8 if salt < 2 else [8, 2, 1, 4, 0, 8 | 2, 8][(k + salt + len(drops)) % 7])
            for k, v in enumerate(drops)]
    if salt % 2:
        _redisplay(m, rows, salt)
    return rows


_DENSE = {}


def _dense(m, shot):
    if "hr" not in _DENSE:
        _DENSE["hr"] = m.HitResult(shot, _rows(m, [0] * 33, 0) if False else [
            impl.make_row(time=float(i), distance=m.Unit.Foot(i / 4.0), target_drop=m.Unit.Foot(-0.01 * i), height=m.Unit.Foot(-0.01 * i), flag=8)
            for i in range(33)], True)
    return _DENSE["hr"]


def replay_spec_cases(chk, cases):
    m = impl.pb()
    U = m.Unit
    shot = impl.simple_shot()
    groups = {}
    for c in cases:
        d, t, h, adm = c["d"], c["t"], c["h"], {tuple(x) for x in c["adm"]}
        n = len(d)
        salt = (sum(d) + 3 * t + h + n) % 4
        # the question is asked under whatever output preferences are in force (every argument carries its unit)
        pr = (sum(d) + t + 2 * h) % 5
        m.PreferredUnits.drop = [U.Inch, U.Centimeter, U.Meter, U.Foot, U.Millimeter][pr]
        m.PreferredUnits.distance = [U.Yard, U.Meter, U.Foot, U.Kilometer, U.Inch][pr]
        m.PreferredUnits.target_height = [U.Inch, U.Meter, U.Centimeter, U.Yard, U.Foot][pr]
        if pr:
            chk.stratum("asked_under_non_default_preferences")
        rows = _rows(m, d, salt)
        hr = m.HitResult(shot, rows, True)
        height = U.Foot(float(h)) if salt < 2 else U.Inch(12.0 * h)     # half height = h/2 ft; spec half is doubled like the drops
        chk.stratum("rows_redisplayed" if salt % 2 else "rows_as_built")
        if t == 0:
            ranges = [("beyond", n - 1 + 0.5), ("beyond", float(n + 3))]
        else:
            ranges = [("on", float(t - 1))] + ([("off", t - 1 - 0.5)] if t >= 2 else [])
        for kind, r in ranges:
            # the range as a quantity, or as a BARE number of the preferred distance unit in force (beyond the end always; on / off
            # the grid only where the conversion is exact, so that equality with a row's distance is preserved)
            pd = m.PreferredUnits.distance
            if (kind == "beyond" and pr % 2) or (pd in (U.Foot, U.Inch) and (t + h) % 2):
                at_arg = U.Foot(r) >> pd
                chk.stratum("range_as_bare_number")
            else:
                at_arg = U.Foot(r)
            if (sum(d) + t + 2 * h) % 3 != 0:
                # ANOTHER result - a much denser card of another shot (rows every quarter foot) - is asked at the same range just
                # before: whatever a look-up leaves behind (an index, a hint where to resume) belongs to that result, not to this one
                chk.stratum("another_denser_result_asked_just_before")
                impl.outcome(_dense(m, shot).get_at_distance, U.Foot(max(0.0, min(r, 8.0))))
            if (sum(d) + t + h) % 2 == 0:
                # the same result object was asked other questions first whose arguments LOOK like this one (equal number, equal
                # raw magnitude) but mean another distance: x inches before the bare number x, the bare number x under another
                # preferred distance unit, the bare number of its raw inches before a quantity
                chk.stratum("look_alike_questions_asked_first")
                if hasattr(at_arg, "raw_value"):
                    impl.outcome(hr.danger_space, float(at_arg.raw_value), height, U.Degree(0))
                else:
                    impl.outcome(hr.danger_space, U.Inch(float(at_arg)), height, U.Degree(0))
                    impl.outcome(hr.get_at_distance, U.Inch(float(at_arg)))
                    m.PreferredUnits.distance = U.Meter if pd != U.Meter else U.Yard
                    impl.outcome(hr.danger_space, at_arg, height, U.Degree(0))
                    m.PreferredUnits.distance = pd
            o = impl.outcome(hr.danger_space, at_arg, height, U.Degree(0))
            key = {"d": d, "t": t, "h": h, "range": kind, "rising": any(d[i] < d[i + 1] for i in range(n - 1))}
            nontriv = n >= 3 and t > 0
            chk.count(1, (tuple(d), t, h, kind) if nontriv else None)
            if t == 0:
                chk.stratum("beyond")
                if not (o[0] == "exc" and isinstance(o[2], ArithmeticError)):
                    chk.violation("C16.BeyondNotError", key, {"case": c, "got": repr(o[1])})
                continue
            if o[0] != "ok":
                chk.violation("C16.UnexpectedError", key, {"case": c, "got": o[1]})
                continue
            ds = o[1]
            ident = lambda row: next((i + 1 for i, x in enumerate(rows) if x is row), 0)
            b, e, at = ident(ds.begin), ident(ds.end), ident(ds.at_range)
            # the result says what was asked (target height, look angle: the argument, or the shot's when omitted), and asking
            # again - after other questions to the same result - gives the same answer
            if ds.target_height.raw_value != height.raw_value or ds.look_angle.raw_value != 0.0:
                chk.violation("C16.ResultFields", key, {"case": c, "target_height": repr(ds.target_height), "look_angle": repr(ds.look_angle)})
            impl.outcome(hr.danger_space, U.Foot(float(max(0, n - 2))), U.Foot(float(h + 1)), U.Degree(10))
            o_again = impl.outcome(hr.danger_space, U.Foot(r), height, None)
            if o_again[0] != "ok" or (ident(o_again[1].begin), ident(o_again[1].end), ident(o_again[1].at_range)) != (b, e, at) \
                    or o_again[1].look_angle.raw_value != shot.look_angle.raw_value:
                chk.violation("C16.DependsOnEarlierQuestions", key, {"case": c, "first": [b, e, at], "again": repr(o_again[1])[:200]})
            if at != t:
                chk.violation("C16.WrongTargetRow", key, {"case": c, "got_at": at})
            if (b, e) not in adm:
                chk.violation("C16.NotAdmissible", key, {"case": c, "got": [b, e], "admissible": sorted(adm)})
            if key["rising"]:
                chk.stratum("rising")
            chk.stratum("on_grid" if kind == "on" else "off_grid")
            g = groups.setdefault((tuple(d), t, kind), [])
            g.append((h, b, e))
    for (d, t, kind), g in groups.items():
        g.sort()
        for (h1, b1, e1), (h2, b2, e2) in zip(g, g[1:]):
            chk.count(1)
            if b2 > b1 or e2 < e1:
                chk.violation("C16.ShrinksWithHeight", {"d": list(d), "t": t, "range": kind},
                              {"h1": h1, "be1": [b1, e1], "h2": h2, "be2": [b2, e2]})
            chk.stratum("monotone_pairs")


def real_traces(chk, n_shots, rng):
    """danger_space on real extra-data trajectories -> projected trace lines"""
    m = impl.pb()
    U = m.Unit
    lines = []
    raw = {}
    tid = 0
    grp = 0
    for s in range(n_shots):
        p = shots.gen_shot(rng, look=rng.choice([0.0, 5.0, -8.0, 20.0, -25.0, 35.0]))
        shot = shots.build_shot(p)
        calc = shots.build_calc({"max_calc_step_size_feet": rng.choice([1.0, 2.0, 4.0])})
        zero_yd = rng.choice([50, 100, 200, 300])
        try:
            calc.set_weapon_zero(shot, U.Yard(zero_yd))
        except Exception:
            pass  # zeroing is C02's business; an un-zeroed shot still has a trajectory
        rng_yd = rng.choice([300, 500, 800])
        step_yd = rng.choice([2, 5, 10, 25])
        try:
            hr = calc.fire(shot, U.Yard(rng_yd), U.Yard(step_yd), extra_data=True)
        except m.RangeError as e:
            hr = m.HitResult(shot, e.incomplete_trajectory, True)
        traj = hr.trajectory
        if len(traj) < 3:
            continue
        if s % 2:
            _redisplay(m, traj, s)      # the caller printed part of the table in other units before asking
            chk.stratum("real_rows_redisplayed")
        drops = [r.target_drop.raw_value for r in traj]
        dists = [r.distance.raw_value for r in traj]
        j = rng.randrange(1, len(dists))
        look_r = math.radians(p["look_deg"])
        targets = [rng.uniform(0, dists[-1]) for _ in range(3)] + [dists[rng.randrange(len(dists))],
                   dists[j] + 1e-6 * max(1.0, dists[j]), dists[j - 1] + 0.98 * (dists[j] - dists[j - 1]),
                   dists[-1] * 1.01 + 1, dists[-1] * (1 + 1e-9) + 1e-6,
                   dists[-1] + 0.5 * (dists[-1] / max(math.cos(look_r), 1e-9) - dists[-1]) + 1e-6]
        for at_raw in targets:
            grp += 1
            t = next((i + 1 for i, x in enumerate(dists) if x >= at_raw), 0)
            heights = sorted(rng.choice([1.0, 2.0, 4.0, 12.0, 18.0, 36.0, 72.0, 196.85]) * rng.choice([1.0, 1.0, 0.37, 2.5])
                             for _ in range(3))
            for hrank, h_in in enumerate(heights):
                tid += 1
                m.PreferredUnits.drop = [U.Inch, U.Centimeter, U.Meter, U.Foot][(tid + s) % 4]
                m.PreferredUnits.target_height = [U.Inch, U.Meter, U.Centimeter, U.Yard][(tid + s) % 4]
                o = impl.outcome(hr.danger_space, U.Inch(at_raw), U.Inch(h_in), U.Degree(p["look_deg"]))
                half = h_in / 2.0
                cls = []
                if t > 0:
                    for k, dv in enumerate(drops):
                        x = abs(dv - drops[t - 1]) - half
                        band = 1e-9 * max(1.0, half, abs(dv))
                        cls.append(0 if abs(x) <= band else (-1 if x < 0 else 1))
                else:
                    cls = [0]
                if o[0] == "ok":
                    ds = o[1]
                    ident = lambda row: next((i + 1 for i, x in enumerate(traj) if x is row), 0)
                    b, e, err, at_i = ident(ds.begin), ident(ds.end), "none", ident(ds.at_range)
                else:
                    b, e, err, at_i = 0, 0, o[1], 0
                line = {"id": tid, "cls": cls, "t": t, "b": b, "e": e, "err": err, "grp": grp, "hrank": hrank, "at": at_i}
                lines.append(line)
                raw[tid] = {"shot": p, "zero_yd": zero_yd, "range_yd": rng_yd, "step_yd": step_yd, "at_inch": at_raw,
                            "height_inch": h_in, "line": {k: v for k, v in line.items() if k != "cls"},
                            "rising_branch": bool(t > 1 and drops[t - 1] > drops[max(0, t - 2)])}
                chk.count(1, ("real", tid) if t > 0 and len(traj) > 5 else None)
                if raw[tid]["rising_branch"]:
                    chk.stratum("real_rising")
                elif t > 0:
                    chk.stratum("real_falling")
                else:
                    chk.stratum("real_beyond")
    return lines, raw


def run(chk: core.Check, replay=None) -> None:
    core.use_repo(hooks=False)
    core.reset_world()
    thorough = chk.tier == "thorough"
    maxlen, maxdrop, halves = (6, 3, [0, 1, 2, 3, 4, 7]) if thorough else (5, 3, [0, 1, 2, 3, 4])
    design(chk, maxlen, maxdrop, halves)
    gen = core.run_tlc("Gen_DangerSpace", _cfg(maxlen, maxdrop, halves) + "INIT Init\nNEXT GenNext\nINVARIANT Emit\n",
                       workers=1, tags=["CASE"], timeout=3000)
    chk.tlc(gen, f"Gen_DangerSpace MaxLen={maxlen}")
    cases = gen.out("CASE")
    if len(cases) != gen.distinct:
        raise core.MachineryError("Gen_DangerSpace: emitted cases != states")
    replay_spec_cases(chk, cases)
    core.reset_world()
    chk.traces += len(cases)
    for c in cases[:: max(1, len(cases) // 4)][:4]:
        chk.sample(c)
    # code -> spec
    rng = random.Random(chk.seed * 7919 + 16)
    lines, raw = real_traces(chk, 60 if thorough else 12, rng)
    fails = core.validate_trace(chk, "Trace_DangerSpace", lines, "danger_space on real trajectories")
    chk.traces += len(lines)
    for tid, clause in fails:
        info = raw[tid]
        chk.violation(clause, {"source": "real", "rising_branch": info["rising_branch"]}, info)
    chk.sample({"real_call": next(iter(raw.values()))})
    chk.require_strata(["beyond", "rising", "on_grid", "off_grid", "monotone_pairs", "real_rising", "real_falling", "real_beyond", "rows_redisplayed", "rows_as_built", "real_rows_redisplayed", "asked_under_non_default_preferences", "range_as_bare_number", "look_alike_questions_asked_first", "another_denser_result_asked_just_before"])
    chk.rule.append(f"every drop sequence of length<=%d over 0..%d x target row x half-height in %s (TLC Gen_DangerSpace), on- and "
                    f"off-grid ranges; plus seeded real extra-data trajectories x targets x heights; non-trivial = >=3 rows and "
                    f"target inside the trajectory" % (maxlen, maxdrop, halves))
    chk.assumptions += ["real-trajectory drops are classified against the half height with a relative 1e-9 band (boundary = either way)",
                        "trajectory rows start at distance 0 and requested ranges are >= 0"]
