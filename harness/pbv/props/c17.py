"""C17 - powder temperature sensitivity is linear, anchored and reproduces calibration.

D   : Powder.tla - the Ammo state machine (Calibrate / SetModifier / Toggle / Query) with exact rationals;
      invariants: disabled = stated, anchored, linear per 15 C, calibration reproduced, rejected
      calibration leaves the state alone.
S->C: Gen_Powder emits every behaviour of MaxOps operations with the exact expected outcome of each
      operation; each is replayed on a real Ammo (temperatures and velocities in several units), and the
      launch velocity of a real `fire` is compared for a sample of reached states.
"""
from __future__ import annotations

import random
from fractions import Fraction

from pbv import core, impl, units as UA

REL = 1e-9


def _cfg(vels, temps, mods, maxops):
    cfg = (f"CONSTANTS\n Vels = {{{', '.join(map(str, vels))}}}\n Temps <- TempsC\n Mods <- ModsC\n MaxOps = {maxops}\n")
    defs = ("TempsC == {" + ", ".join(map(str, temps)) + "}\nModsC == {" +
            ", ".join(f"<<{n}, {d}>>" for n, d in mods) + "}")
    return cfg, defs


PROPS = ("SPECIFICATION Spec\nINVARIANT C17_DisabledIsStated\nINVARIANT C17_Anchored\nINVARIANT C17_LinearPer15\n"
         "INVARIANT C17_ReproducesCalibration\nPROPERTY C17_RejectLeavesState\n")


def close(got, want: Fraction):
    w = float(want)
    return abs(got - w) <= REL * max(abs(w), 1e-9)


def replay(chk, behs, rng, fire_every):
    m = impl.pb()
    U = m.Unit
    dm = m.DragModel(0.3, m.TableG7)
    weapon = m.Weapon(U.Inch(2))
    calc = m.Calculator(_config={"max_calc_step_size_feet": 4.0})
    temp_units = ["Celsius", "Fahrenheit", "Kelvin", "Rankin"]
    vel_units = ["MPS", "FPS", "KMH", "MPH", "KT"]
    for bi, b in enumerate(behs):
        v0, T0 = b["v0"], b["T0"]
        tu = temp_units[bi % 4]
        vu = vel_units[(bi // 4) % 5]
        TU, VU = UA.unit_enum(tu), UA.unit_enum(vu)

        # every third behaviour passes BARE numbers, read in the preferred units set for it (C07 meets C17: the
        # calibration, baseline and query sites must all read a plain number the same way)
        bare = bi % 3 == 2
        core.reset_world()
        if bare:
            m.PreferredUnits.temperature = TU
            m.PreferredUnits.velocity = VU
            chk.stratum("bare_numbers")

        def T_(t):
            x = float(UA.convert("Celsius", tu, t))
            return x if bare else TU(x)

        def V_(v):
            x = float(UA.convert("MPS", vu, v))
            return x if bare else VU(x)

        ammo = m.Ammo(dm, V_(v0), T_(T0))
        # one long-lived shot (same calculator, weapon, ammunition AND atmosphere objects) fired after every operation: the
        # launch velocity follows the ammunition's CURRENT state, however often this very pair has been fired before
        held_atmo = m.Atmo(U.Foot(0), U.InHg(29.92), U.Celsius(15.0), 0.0, U.Celsius(float(T0 + 25)))
        held_shot = m.Shot(weapon=weapon, ammo=ammo, atmo=held_atmo)
        flag = False
        exp_state = {"mod": Fraction(0), "flag": False}
        key0 = {"v0": v0, "T0": T0, "tunit": tu, "vunit": vu}
        sig = []
        for step, op in enumerate(b["ops"]):
            a = op["a"]
            sig.append(a)
            if not bare and bi % 2 == 0:
                # legitimate meddling between operations: the caller looks at the ammunition's own quantities in other units
                # (<< re-labels the stored object in place) and switches the preferred units; with explicit-unit arguments
                # none of this may change any velocity (C13: display only; C07: preferences only read bare numbers)
                pert = (bi + step) % 4
                if pert == 0:
                    ammo.mv << UA.unit_enum(vel_units[(bi + step + 1) % 5])
                elif pert == 1:
                    ammo.powder_temp << UA.unit_enum(temp_units[(bi + step + 1) % 4])
                elif pert == 2:
                    m.PreferredUnits.velocity = UA.unit_enum(vel_units[(bi + step + 2) % 5])
                else:
                    m.PreferredUnits.temperature = UA.unit_enum(temp_units[(bi + step + 2) % 4])
                chk.stratum("display_and_preferences_perturbed")
            if step > 0 and bi % fire_every == 0:
                wantv = impl.outcome(lambda: ammo.get_velocity_for_temp(held_atmo.powder_temp) >> U.FPS)

                def launch_held():
                    try:
                        return calc.fire(held_shot, U.Foot(16), U.Foot(8)).trajectory[0].velocity >> U.FPS
                    except m.RangeError as e:
                        return e.incomplete_trajectory[0].velocity >> U.FPS
                if wantv[0] == "ok" and wantv[1] > 0:
                    gotv = impl.outcome(launch_held)
                    chk.count(1)
                    chk.stratum("fire_held_shot_after_every_operation")
                    if gotv[0] != "ok" or abs(gotv[1] - wantv[1]) > 1e-9 * abs(wantv[1]):
                        chk.violation("C17.LaunchVelocity", {**key0, "history": "/".join(sig[:-1]), "mode": "held-shot"},
                                      {"beh": b, "step": step, "got": gotv[1], "want": wantv[1]})
            if a == "Calibrate":
                before = (ammo.temp_modifier, ammo.use_powder_sensitivity)
                o = impl.outcome(ammo.calc_powder_sens, V_(op["v"]), T_(op["T"]))
                if op["ok"] and o[0] != "ok":
                    chk.violation("C17.CalibrationRejected", {**key0, "v1": op["v"], "T1": op["T"]}, {"beh": b, "step": step, "exc": o[1]})
                if not op["ok"]:
                    chk.stratum("calibration_rejected")
                    # equal velocity or temperature in another unit may differ by rounding: only demand the
                    # rejection when the values are bit-identical after conversion
                    same_v = (VU(float(UA.convert("MPS", vu, op["v"]))) >> U.MPS) == (ammo.mv >> U.MPS)
                    same_t = (TU(float(UA.convert("Celsius", tu, op["T"]))) >> U.Celsius) == (ammo.powder_temp >> U.Celsius)
                    if (same_v or same_t):
                        if o[0] == "ok":
                            chk.violation("C17.BadCalibrationAccepted", {**key0, "v1": op["v"], "T1": op["T"]}, {"beh": b, "step": step})
                        elif (ammo.temp_modifier, ammo.use_powder_sensitivity) != before:
                            chk.violation("C17.RejectedCalibrationChangedState", key0, {"beh": b, "step": step})
                    elif o[0] == "ok":
                        # conversion rounding made the points differ by an ulp: the modifier is garbage; restore
                        ammo.temp_modifier = before[0]
                else:
                    chk.stratum("calibrated_faster" if op["v"] > v0 else "calibrated_slower")
                    chk.stratum("calibrated_warmer" if op["T"] > T0 else "calibrated_colder")
            elif a == "SetModifier":
                ammo.temp_modifier = op["v"] / op["T"]
            elif a == "Toggle":
                flag = not flag
                ammo.use_powder_sensitivity = flag
            elif a == "Query":
                want = Fraction(op["res"][0] * op["res"][1], op["res"][2])
                # compared in the unit the velocities were given in (the library's own unit factors may differ
                # from the SI ones by up to C06's 1e-6; that is C06's business, not C17's)
                want = want * UA.convert("MPS", vu, 1)
                o = impl.outcome(lambda: ammo.get_velocity_for_temp(T_(op["T"])) >> VU)
                nontriv = flag and op["res"][1] != op["res"][2]
                chk.count(1, (v0, T0, tuple(sig), op["T"], str(op["res"])) if nontriv else None)
                chk.stratum("query_enabled" if flag else "query_disabled")
                k = {**key0, "Tq": op["T"], "flag": flag, "history": "/".join(sig)}
                if o[0] != "ok":
                    chk.violation("C17.QueryRaised", k, {"beh": b, "step": step, "exc": o[1]})
                elif not close(o[1], want):
                    chk.violation("C17.WrongVelocity", k, {"beh": b, "step": step, "got": o[1], "want": float(want)})
                if bi % fire_every == 0:
                    # launch velocity of the solver: powder temperature of the atmosphere (air temperature unless given)
                    for mode in ("air", "powder_t"):
                        if mode == "air":
                            atmo = m.Atmo(U.Foot(0), U.InHg(29.92), T_(op["T"]), 0.0)
                        else:
                            atmo = m.Atmo(U.Foot(0), U.InHg(29.92), U.Celsius(15.0 if op["T"] != 15 else 20.0), 0.0, T_(op["T"]))
                        shot = m.Shot(weapon=weapon, ammo=ammo, atmo=atmo)
                        if want <= 0:
                            # a sensitivity this extreme extrapolates to a non-positive speed: nothing to launch
                            chk.stratum("fire_skipped_nonpositive_velocity")
                            continue

                        def launch():
                            # below the calculator's minimum velocity the solver stops at once (C04): the muzzle row is
                            # attached to the error
                            try:
                                return calc.fire(shot, U.Foot(16), U.Foot(8)).trajectory[0].velocity >> VU
                            except m.RangeError as e:
                                return e.incomplete_trajectory[0].velocity >> VU
                        switched = bare and (step + 1) % 4 != 0 and (bi + step) % 2 == 0
                        if switched:
                            # an atmosphere is a value: the bare numbers it was built from were read when it was built; the
                            # caller changes the preferred units afterwards, before the shot is fired
                            m.PreferredUnits.temperature = UA.unit_enum(temp_units[(bi + step + 1) % 4])
                            m.PreferredUnits.velocity = UA.unit_enum(vel_units[(bi + step + 1) % 5])
                            chk.stratum("bare_atmosphere_fired_under_other_preferences")
                        o2 = impl.outcome(launch)
                        if switched:
                            m.PreferredUnits.temperature = TU
                            m.PreferredUnits.velocity = VU
                        chk.count(1)
                        chk.stratum("fire_" + mode)
                        if o2[0] != "ok":
                            chk.violation("C17.FireRaised", {**k, "mode": mode}, {"beh": b, "exc": o2[1]})
                        elif abs(o2[1] - float(want)) > 1e-8 * float(want):
                            chk.violation("C17.LaunchVelocity", {**k, "mode": mode}, {"beh": b, "got": o2[1], "want": float(want)})
        epilogue(chk, b, ammo, T_, VU, vu, key0, sig, every=1 if bi % 3 == 0 else 2, start=bi,
                 fire_ctx=(m, calc, weapon) if bi % fire_every == 0 else None)
        if bare and len(b.get("final", [])) >= 2:
            # COINCIDENCE queries: a bare number that happens to equal the baseline temperature's (or the stated velocity's) number in
            # ANOTHER unit - the library's own base units first (Fahrenheit, m/s) - is still that many of the PREFERRED unit: the
            # answer lies on the spec's final line (linear: through its first and last points), nowhere else
            fin = sorted(b["final"])
            (Ta, ra), (Tb, rb) = fin[0], fin[-1]
            va, vb = Fraction(ra[0] * ra[1], ra[2]), Fraction(rb[0] * rb[1], rb[2])
            nums = {float(UA.convert("Celsius", u_, T0)) for u_ in temp_units if u_ != tu} | {float(v0), float(UA.convert("MPS", "FPS", v0))}
            for x in sorted(nums):
                Tc = UA.convert(tu, "Celsius", Fraction(x))
                if Tc < -273:
                    continue
                want = (va + (vb - va) * (Tc - Ta) / (Tb - Ta)) * UA.convert("MPS", vu, 1)
                o = impl.outcome(lambda: ammo.get_velocity_for_temp(x) >> VU)
                chk.count(1)
                chk.stratum("bare_query_equal_to_the_baseline_number_in_another_unit")
                if o[0] != "ok":
                    chk.violation("C17.QueryRaised", {**key0, "Tq": float(Tc), "flag": True, "history": "/".join(sig) + "/(on)/coincidence"}, {"beh": b, "exc": o[1]})
                elif not close(o[1], want):
                    chk.violation("C17.WrongVelocity", {**key0, "Tq": float(Tc), "flag": True, "history": "/".join(sig) + "/(on)/coincidence"},
                                  {"beh": b, "bare_number": x, "preferred_unit": tu, "got": o[1], "want": float(want)})


def epilogue(chk, b, ammo, T_, VU, vu, key0, sig, every=1, start=0, fire_ctx=None):
    """after the history: switched on, the ammunition reports the spec's final line at every temperature"""
    ammo.use_powder_sensitivity = True
    for T, res in sorted(b.get("final", []))[start % every:: every]:
        want = Fraction(res[0] * res[1], res[2]) * UA.convert("MPS", vu, 1)
        o = impl.outcome(lambda: ammo.get_velocity_for_temp(T_(T)) >> VU)
        chk.count(1)
        chk.stratum("epilogue_switched_on")
        if o[0] != "ok":
            chk.violation("C17.QueryRaised", {**key0, "Tq": T, "flag": True, "history": "/".join(sig) + "/(on)"}, {"beh": b, "exc": o[1]})
        elif not close(o[1], want):
            chk.violation("C17.WrongVelocity", {**key0, "Tq": T, "flag": True, "history": "/".join(sig) + "/(on)"},
                          {"beh": b, "got": o[1], "want": float(want)})
    fin = sorted(b.get("final", []))
    if fire_ctx is None or len(fin) < 2:
        return
    # atmospheres that are GIVEN NO powder temperature - and mostly no air temperature either (altitude only, nothing at all,
    # the ICAO factory, a shot built without an atmosphere): the powder is as warm as the air of that atmosphere, and the solver
    # launches at the spec's final line (linear in temperature: through its first and last points) read at that air temperature
    m, calc, weapon = fire_ctx
    U = m.Unit
    (T1, r1), (T2, r2) = fin[0], fin[-1]
    w1, w2 = (Fraction(r[0] * r[1], r[2]) * UA.convert("MPS", vu, 1) for r in (r1, r2))
    makers = [("altitude_only_1500m", lambda: m.Atmo(altitude=U.Meter(1500))), ("altitude_only_below_sea", lambda: m.Atmo(altitude=U.Foot(-800))),
              ("altitude_and_pressure", lambda: m.Atmo(U.Foot(6000), U.InHg(24.0))), ("nothing_given", lambda: m.Atmo()),
              ("icao_at_altitude", lambda: m.Atmo.icao(U.Foot(9000))), ("air_temperature_only", lambda: m.Atmo(temperature=U.Celsius(-12.5))),
              ("shot_without_atmosphere", None)]
    for name, mk in makers[start % 2:: 2] if every > 1 else makers:
        def build():
            if mk is None:
                sh = m.Shot(weapon=weapon, ammo=ammo)
                return sh, sh.atmo
            at = mk()
            return m.Shot(weapon=weapon, ammo=ammo, atmo=at), at
        o = impl.outcome(build)
        chk.count(1)
        chk.stratum("fire_implied_powder_temperature")
        k = {**key0, "atmosphere": name, "history": "/".join(sig) + "/(on)"}
        if o[0] != "ok":
            chk.violation("C17.FireRaised", {**k, "mode": "implied"}, {"beh": b, "exc": o[1]})
            continue
        shot, at = o[1]
        air_c = at.temperature >> U.Celsius
        if (at.powder_temp >> U.Celsius) != air_c:
            chk.violation("C17.PowderNotAsWarmAsTheAir", k, {"beh": b, "air_c": air_c, "powder_c": at.powder_temp >> U.Celsius})
            continue
        want = w1 + (w2 - w1) * (Fraction(air_c) - T1) / (T2 - T1)
        if want <= 0:
            continue

        def launch():
            try:
                return calc.fire(shot, U.Foot(16), U.Foot(8)).trajectory[0].velocity >> VU
            except m.RangeError as e:
                return e.incomplete_trajectory[0].velocity >> VU
        o2 = impl.outcome(launch)
        if o2[0] != "ok":
            chk.violation("C17.FireRaised", {**k, "mode": "implied"}, {"beh": b, "exc": o2[1]})
        elif abs(o2[1] - float(want)) > 1e-8 * float(want):
            chk.violation("C17.LaunchVelocity", {**k, "mode": "implied"}, {"beh": b, "got": o2[1], "want": float(want), "air_c": air_c})


def constructor_path(chk):
    """The modifier handed to the CONSTRUCTOR (number types, signs, magnitudes up to several hundred percent per 15 C) means what
    the statement says - velocity = stated x (1 + modifier x (T - T0) / 15 C) - and an ammunition REBUILT from its own fields (after a
    calibration from two measurements one degree apart, which gives a modifier above 1) is the same ammunition."""
    import dataclasses
    m = impl.pb()
    U = m.Unit
    dm = m.DragModel(0.3, m.TableG7)
    for mod in (0, 0.01, 0.5, 1, 1.0, 1.5, -2.0, 3, -0.999, 25.0, 1e-9):
        ammo = m.Ammo(dm, U.MPS(800), U.Celsius(15), mod, True)
        for T in (-15.0, 0.0, 15.0, 16.0, 30.0):
            want = Fraction(800) * (1 + Fraction(mod) * Fraction(T - 15.0) / 15)
            if want <= 0:
                continue
            for tq in (U.Celsius(T), U.Fahrenheit(T * 9 / 5 + 32)):
                o = impl.outcome(lambda: ammo.get_velocity_for_temp(tq) >> U.MPS)
                chk.count(1, ("ctor-modifier", mod, T))
                chk.stratum("modifier_given_to_the_constructor" + ("_above_one" if abs(mod) > 1 else ""))
                if o[0] != "ok" or not close(o[1], want):
                    chk.violation("C17.WrongVelocity", {"source": "constructor", "modifier": float(mod), "Tq": T, "flag": True},
                                  {"got": o[1], "want": float(want), "modifier_type": type(mod).__name__})
    a = m.Ammo(dm, U.MPS(800), U.Celsius(15))
    a.calc_powder_sens(U.MPS(900), U.Celsius(16))
    a.use_powder_sensitivity = True
    copies = {"constructor from its own fields": lambda: m.Ammo(a.dm, a.mv, a.powder_temp, a.temp_modifier, a.use_powder_sensitivity),
              "dataclasses.replace": lambda: dataclasses.replace(a)}
    for how, mk in copies.items():
        o = impl.outcome(mk)
        chk.count(1, ("rebuilt", how))
        chk.stratum("calibrated_ammunition_rebuilt_from_its_fields")
        if o[0] != "ok":
            if how == "dataclasses.replace" and not dataclasses.is_dataclass(a):
                continue
            chk.violation("C17.RebuildRaised", {"source": "rebuilt", "how": how}, {"exc": o[1]})
            continue
        for T in (15.0, 16.0, 20.0, 0.0):
            g1, g2 = a.get_velocity_for_temp(U.Celsius(T)) >> U.MPS, o[1].get_velocity_for_temp(U.Celsius(T)) >> U.MPS
            if g1 != g2:
                chk.violation("C17.RebuiltAmmunitionDiffers", {"source": "rebuilt", "how": how, "Tq": T}, {"original": g1, "rebuilt": g2, "modifier": a.temp_modifier})
    if not close(a.get_velocity_for_temp(U.Celsius(16)) >> U.MPS, Fraction(900)):
        chk.violation("C17.WrongVelocity", {"source": "rebuilt", "how": "original", "Tq": 16.0, "flag": True}, {"got": a.get_velocity_for_temp(U.Celsius(16)) >> U.MPS, "want": 900.0})


def run(chk: core.Check, replay_path=None, **_):
    core.use_repo(hooks=False)
    core.reset_world()
    thorough = chk.tier == "thorough"
    vels, temps = [700, 800, 820], [-15, 0, 15, 30]
    mods = [(0, 1), (1, 100), (-1, 50)]
    maxops = 3
    cfg, defs = _cfg(vels, temps, mods, 4 if thorough else 3)
    r = chk.tlc(core.run_tlc("Powder", cfg + PROPS, defs=defs, coverage=True), "Powder design model")
    for a in ("Calibrate", "SetModifier", "Toggle", "Query"):
        if not r.coverage.get(f"Powder.{a}"):
            raise core.MachineryError(f"Powder.{a} never taken")
    cfg, defs = _cfg(vels, temps, mods, maxops)
    gen = core.run_tlc("Gen_Powder", cfg + "INIT GenInit\nNEXT GenNext\nINVARIANT Emit\n", defs=defs, workers=1, tags=["BEH"])
    chk.tlc(gen, f"Gen_Powder behaviours of {maxops} operations")
    behs = gen.out("BEH")
    rng = random.Random(chk.seed + 17)
    if not thorough:
        # quick: every behaviour that ends in a Query (the observable), plus a seeded 10% of the rest
        behs = [b for b in behs if b["ops"][-1]["a"] == "Query" or rng.random() < 0.1]
    replay(chk, behs, rng, fire_every=3 if thorough else 40)
    if thorough:
        # longer behaviours by simulation
        cfg4, defs4 = _cfg(vels + [905], temps + [-40, 52], mods + [(3, 200)], 6)
        sim = core.run_tlc("Gen_Powder", cfg4 + "INIT GenInit\nNEXT GenNext\nINVARIANT Emit\n", defs=defs4, workers=1,
                           tags=["BEH"], simulate="num=20000", depth=7, seed=chk.seed + 1)
        chk.tlc_runs.append({"what": "Gen_Powder -simulate depth 6", "behaviours": len(sim.out("BEH"))})
        replay(chk, sim.out("BEH"), rng, fire_every=50)
        chk.traces += len(sim.out("BEH"))
    core.reset_world()
    constructor_path(chk)
    core.reset_world()
    chk.traces += len(behs)
    for b in behs[:: max(1, len(behs) // 4)][:4]:
        chk.sample(b)
    chk.require_strata(["epilogue_switched_on", "fire_held_shot_after_every_operation", "display_and_preferences_perturbed", "bare_numbers", "calibration_rejected", "calibrated_faster", "calibrated_slower", "calibrated_warmer", "calibrated_colder",
                        "query_enabled", "query_disabled", "fire_air", "fire_powder_t", "fire_implied_powder_temperature", "bare_atmosphere_fired_under_other_preferences", "bare_query_equal_to_the_baseline_number_in_another_unit", "modifier_given_to_the_constructor_above_one", "calibrated_ammunition_rebuilt_from_its_fields"])
    chk.rule.append("every behaviour of %d operations of the Powder state machine over v in %s m/s, T in %s C (TLC Gen_Powder), "
                    "temperatures/velocities passed in rotating units; non-trivial = an enabled query whose answer differs "
                    "from the stated velocity" % (maxops, vels, temps))
    chk.assumptions += ["velocities compared with the spec's exact rational to 1e-9 relative (1e-8 through fire)",
                        "unit variants computed from the UnitAlgebra table"]
    if not thorough:
        chk.exhaustive = False
