"""C18 - configuration is honoured, local to its calculator, and parsed faithfully.

D    : Config.tla (frozen per-calculator settings, global step setter/reset; 'live' deviation refuted) and
       UnitNames.tla (golden name table x spelling variants x entry points).
S->C : Gen_Config behaviours replayed on real calculators (settings compared after every operation; each Use
       fires a recorded shot validated by Trace_Integrator with the constants the SPEC says that calculator has);
       every Gen_UnitNames case replayed into _parse_unit / PreferredUnits.set / _parse_value / basicConfig files.
C->S : settings honoured - step bound per iteration, limits (paired with a default calculator), gravity in a
       vacuum, zero accuracy and iteration cap from the zero-finder hook.
"""
from __future__ import annotations

import os
import math
import random
import tempfile

from pbv import core, impl, integ, loopsuite, scen, shots

CUSTOM = {"max_calc_step_size_feet": 2.0, "cZeroFindingAccuracy": 1e-4, "cMinimumVelocity": 100.0, "cMaximumDrop": -50.0,
          "cMaxIterations": 7, "cGravityConstant": -10.0, "cMinimumAltitude": -20.0, "chart_resolution": 0.3}
DEFAULT = {"max_calc_step_size_feet": 0.5, "cZeroFindingAccuracy": 0.000005, "cMinimumVelocity": 50.0, "cMaximumDrop": -15000,
           "cMaxIterations": 20, "cGravityConstant": -32.17405, "cMinimumAltitude": -1410.748, "chart_resolution": 0.2}
STEPVAL = {1: 1.0, 2: 3.0}       # the spec's abstract global step values, in feet
OVERSETS = ('{{}, {"max_calc_step_size_feet"}, {"cMinimumVelocity", "cMaximumDrop", "cMinimumAltitude"}, '
            '{"cGravityConstant", "max_calc_step_size_feet"}, {"cZeroFindingAccuracy", "cMaxIterations"}, Settings}')


def expected_cfg(spec_cfg):
    out = {}
    for k, v in spec_cfg.items():
        if v == -1:
            out[k] = CUSTOM[k]
        elif v == 0:
            out[k] = DEFAULT[k]
        elif v > 0:
            out[k] = STEPVAL[v]
        else:
            return None
    return out


def design(chk, maxops):
    d = dict(Calcs='{"c1", "c2"}', StepValues="{-1, 0, 1, 2}", EffRule='"frozen"', MaxOps=maxops, OverSets=OVERSETS)
    body = "SPECIFICATION Spec\nPROPERTY C18_Frozen\nINVARIANT C18_Local\nPROPERTY C18_RejectsNonPositive\nINVARIANT C18_GlobalPositive\n"
    cfg, defs = core.consts(d)
    r = chk.tlc(core.run_tlc("Config", cfg + body, defs=defs, coverage=True), f"Config depth {maxops}")
    for a in ("SetGlobalStep", "ResetGlobals", "NewCalc", "Use"):
        if not r.coverage.get(f"Config.{a}"):
            raise core.MachineryError(f"Config.{a} never taken")
    d["EffRule"] = '"live"'
    cfg, defs = core.consts(d)
    r = core.run_tlc("Config", cfg + "SPECIFICATION Spec\nINVARIANT C18_Local\n", defs=defs)
    chk.tlc_runs.append({"what": "Config EffRule=live (expected counterexample)", "violated": r.violated})
    if r.ok:
        raise core.MachineryError("EffRule=live expected to be refuted")
    r = chk.tlc(core.run_tlc("UnitNames", "SPECIFICATION Spec\nINVARIANT C18_TableFunctional\nINVARIANT C18_EveryUnitHasItsName\n"
                             "INVARIANT C18_UnknownNeverSelects\nINVARIANT C18_KnownResolves\nINVARIANT C18_TableSize\n"),
                "UnitNames")
    return d


def cfg_of(calc):
    return calc._calc._config._asdict()


def replay_config(chk, behs, rng):
    import py_ballisticcalc as m
    U = m.Unit
    tid = 0
    outs = []
    for bi, b in enumerate(behs):
        core.reset_world()
        calcs = {}
        shared_dicts = {}      # the caller keeps ONE settings dict per set of overrides and passes the same object again
        for step, e in enumerate(b):
            op = e["op"]
            a = op["a"]
            k = {"op": a, "source": "config-history"}
            det = {"behaviour": b, "step": step}
            chk.count(1, (bi, step) if step >= 2 else None)
            chk.stratum("cfg_" + a)
            if a == "SetGlobalStep":
                v = op["v"]
                val = STEPVAL.get(v, float(v))
                arg = U.Foot(val) if (bi + step) % 2 == 0 else U.Inch(val * 12.0)
                o = impl.outcome(m.set_global_max_calc_step_size, arg)
                if op["ok"] and o[0] != "ok":
                    chk.violation("C18.GlobalStepRejected", k, {**det, "exc": o[1]})
                if not op["ok"]:
                    chk.stratum("cfg_nonpositive_global_step")
                    if o[0] == "ok":
                        chk.violation("C18.NonPositiveGlobalStepAccepted", k, det)
            elif a == "ResetGlobals":
                m.reset_globals()
            elif a == "NewCalc":
                over = {kk: CUSTOM[kk] for kk in op["over"]}
                if bi % 3 != 2:
                    over = shared_dicts.setdefault(frozenset(op["over"]), over)
                    chk.stratum("cfg_settings_dict_reused")
                before_dict = dict(over)
                calcs[op["c"]] = m.Calculator(_config=over if (over or bi % 2) else None)
                if over != before_dict:
                    chk.violation("C18.CallerSettingsDictMutated", k, {**det, "before": before_dict, "after": dict(over)})
                    over.clear()
                    over.update(before_dict)
            elif a == "Use":
                calc = calcs[op["c"]]
                exp = expected_cfg(e["cfg"][op["c"]])
                tid += 1
                p = {"table": "G7", "bc": 0.3, "mv_fps": 2600.0, "sight_in": 2.0, "look_deg": 0.0, "alt_ft": 0.0, "winds": [[20.0, 90.0, 1e8]]}
                shot = shots.build_shot(p)
                rec = integ.Recorder().install()
                try:
                    calc.fire(shot, U.Foot(120.0), U.Foot(30.0))
                except m.RangeError:
                    pass
                finally:
                    rec.remove()
                c = rec.calls[-1]
                lines, summ = integ.project_call(c, tid, {}, cfg_expected=integ.tcmod().Config(**exp))
                outs.append({"tid": tid, "lines": lines, "summ": summ, "sc": {"history": b, "step": step}, "outcome": "ok"})
                # the step the calculator integrates with is governed by its own setting: about range / (max_step / 2)
                # iterations (the air-relative advance per iteration is half the maximum step)
                n_exp = 120.0 / (exp["max_calc_step_size_feet"] / 2.0)
                if not (0.6 * n_exp <= summ["n_iter"] <= 1.6 * n_exp + 3):
                    chk.violation("C18.StepSettingNotHonoured", k, {**det, "iterations": summ["n_iter"], "expected_about": n_exp,
                                                                    "expected_cfg": exp})
                chk.stratum("cfg_use_with_global_%s" % ("changed" if e["gstep"] != 0 else "default"))
            # ---- after every operation: the global and every live calculator are as the spec says
            g = m.get_global_max_calc_step_size() >> U.Foot
            gexp = 0.5 if e["gstep"] == 0 else STEPVAL[e["gstep"]]
            if abs(g - gexp) > 1e-12:
                chk.violation("C18.GlobalStepWrong", k, {**det, "got": g, "want": gexp})
            for cn, calc in calcs.items():
                exp = expected_cfg(e["cfg"][cn])
                got = cfg_of(calc)
                for kk, vv in exp.items():
                    if kk == "max_calc_step_size_feet":
                        same = abs(got[kk] - vv) <= 1e-12
                    else:
                        same = got[kk] == vv
                    if not same:
                        chk.violation("C18.CalculatorSettingChanged" if a != "NewCalc" or cn != op["c"] else "C18.SettingNotTaken",
                                      {**k, "setting": kk}, {**det, "calc": cn, "got": got[kk], "want": vv})
    core.reset_world()
    chk.traces += len(behs)
    return outs


# ---------------------------------------------------------------------------------------------------
# names
# ---------------------------------------------------------------------------------------------------

def safe(x) -> str:
    try:
        return repr(x)[:80]
    except RecursionError:
        return f"<{type(x).__name__}: repr recurses>"
    except Exception as e:  # noqa
        return f"<{type(x).__name__}: repr raised {type(e).__name__}>"


def spell(name, cp, variant):
    s = "".join(chr(c) for c in cp) if cp else name
    case, blank, prefix = variant
    if case == "lower":
        s = s.lower()
    elif case == "upper":
        s = s.upper()
    elif case == "title":
        s = s.title()
    lead = " " if blank in ("lead", "both") else ""
    trail = "  " if blank in ("trail", "both") else ""
    return lead + s + trail, prefix


SLOT_OF_DIM = {"angular": "angular", "distance": "distance", "energy": "energy", "pressure": "pressure",
               "temperature": "temperature", "velocity": "velocity", "weight": "weight"}


def replay_names(chk, cases, tmpdir):
    import py_ballisticcalc as m
    from py_ballisticcalc.unit import _parse_unit, _parse_value
    from pbv import units as UA
    tab = UA.table()
    toml_n = 0
    for c in cases:
        s, prefix = spell(c["name"], c["cp"], c["variant"])
        entry, want, known = c["entry"], c["want"], c["known"]
        if c["variant"][0] != "asis" and s.lower() != ("".join(chr(x) for x in c["cp"]) if c["cp"] else c["name"]).lower().strip() and known:
            # a case mapping that changes the string beyond letter case (e.g. unicode dot operator) is not a letter-case variant
            pass
        key = {"entry": entry, "name": c["name"], "case": c["variant"][0], "blank": c["variant"][1], "known": known}
        det = {"case": c, "string": s}
        wantU = getattr(m.Unit, want) if known else None
        dim = tab[want]["dim"] if known else "distance"
        slot = SLOT_OF_DIM[dim]
        core.reset_world()
        initial = getattr(m.PreferredUnits, slot)
        # make the expected unit differ from the slot's initial value, otherwise "unchanged" would look like "resolved"
        if known and initial == wantU:
            others = [u for u in UA.dims()[dim] if u != want]
            setattr(m.PreferredUnits, slot, UA.unit_enum(others[0]))
            initial = getattr(m.PreferredUnits, slot)
        before = {f: getattr(m.PreferredUnits, f) for f in m.PreferredUnits.__dataclass_fields__}
        nontriv = (entry, c["name"], tuple(c["variant"]))
        chk.count(1, nontriv if known else None)
        chk.stratum("names_" + entry)
        chk.stratum("names_known" if known else "names_unknown")

        def unchanged():
            return all(getattr(m.PreferredUnits, f) is before[f] or getattr(m.PreferredUnits, f) == before[f]
                       and isinstance(getattr(m.PreferredUnits, f), m.Unit) for f in before)

        if entry == "parse_unit":
            o = impl.outcome(_parse_unit, s)
            if known:
                if o[0] != "ok" or o[1] is not wantU:
                    chk.violation("C18.NameNotResolved", key, {**det, "got": safe(o[1])})
            elif o[0] == "ok" and isinstance(o[1], m.Unit):
                chk.violation("C18.UnknownNameSelectsUnit", key, {**det, "got": safe(o[1])})
        elif entry == "set_pref":
            o = impl.outcome(lambda: m.PreferredUnits.set(**{slot: s}))
            got = getattr(m.PreferredUnits, slot)
            if known:
                if got is not wantU:
                    chk.violation("C18.NameNotResolved", key, {**det, "slot": slot, "got": safe(got)})
            elif not unchanged():
                chk.violation("C18.UnknownNameChangedSettings", key, {**det, "slot": slot, "got": safe(got)})
            else:
                # the unknown name among VALID entries of the same call (before and after it): it leaves only its own setting
                # unchanged - the valid ones are taken
                others = {"velocity": ("mps", m.Unit.MPS), "temperature": ("Celsius", m.Unit.Celsius), "weight": ("gram", m.Unit.Gram)}
                others.pop(slot, None)
                names_ = list(others)
                call = {names_[0]: others[names_[0]][0], slot: s, names_[1]: others[names_[1]][0]}
                impl.outcome(lambda: m.PreferredUnits.set(**call))
                chk.stratum("names_unknown_among_valid_entries")
                for nm_ in names_[:2]:
                    if getattr(m.PreferredUnits, nm_) is not others[nm_][1]:
                        chk.violation("C18.NameNotResolved", {**key, "entry": "set_pref(several entries)"},
                                      {**det, "call": call, "slot": nm_, "got": safe(getattr(m.PreferredUnits, nm_))})
                if getattr(m.PreferredUnits, slot) is not before[slot] and getattr(m.PreferredUnits, slot) != before[slot]:
                    chk.violation("C18.UnknownNameChangedSettings", {**key, "entry": "set_pref(several entries)"}, {**det, "call": call})
        elif entry == "value_with_prefix":
            text = (" " if c["variant"][1] in ("lead", "both") else "") + prefix + s.strip() + (" " if c["variant"][1] in ("trail", "both") else "")
            o = impl.outcome(_parse_value, text, None)
            if known:
                if o[0] != "ok" or o[1] is None or o[1].units is not wantU or (o[1] >> wantU) != float(prefix):
                    # the value itself must be the number in that unit (exact for the read-back of the same unit? no: rounding)
                    if o[0] == "ok" and o[1] is not None and o[1].units is wantU and abs((o[1] >> wantU) - float(prefix)) <= 1e-9 * max(1.0, abs(float(prefix))):
                        pass
                    else:
                        chk.violation("C18.NameNotResolved", key, {**det, "text": text, "got": safe(o[1])})
            elif o[0] == "ok" and o[1] is not None:
                chk.violation("C18.UnknownNameSelectsUnit", key, {**det, "text": text, "got": safe(o[1])})
        elif entry == "value_preferred_name":
            # the bare number: a float for the plain variant, else the number as a string in every form of the grammar
            num = 2.5 if prefix == "1" else (" " if c["variant"][1] in ("lead", "both") else "") + prefix
            o = impl.outcome(_parse_value, num, s)
            if known:
                if o[0] != "ok" or o[1] is None or o[1].units is not wantU or \
                        abs((o[1] >> wantU) - float(num)) > 1e-9 * max(1.0, abs(float(num))):
                    chk.violation("C18.NameNotResolved", key, {**det, "number": num, "got": safe(o[1])})
            elif o[0] == "ok" and o[1] is not None:
                chk.violation("C18.UnknownNameSelectsUnit", key, {**det, "got": safe(o[1])})
        elif entry in ("config_file_preferred", "config_file_step_units"):
            if entry == "config_file_step_units" and (known and dim != "distance"):
                continue
            toml_n += 1
            path = os.path.join(tmpdir, f"c{toml_n}.toml")
            esc = s.replace("\\", "\\\\").replace('"', '\\"')
            with open(path, "w", encoding="utf-8") as f:
                if entry == "config_file_preferred":
                    # (an unknown name sits between two valid entries of the section)
                    extra_before = 'velocity = "mps"\n' if not known and slot != "velocity" else ""
                    extra_after = 'weight = "gram"\n' if not known and slot != "weight" else ""
                    f.write(f'[pybc.preferred_units]\n{extra_before}{slot} = "{esc}"\n{extra_after}')
                else:
                    f.write(f'[pybc.calculator]\nmax_calc_step_size = {{ value = 2.0, units = "{esc}" }}\n')
            o = impl.outcome(m.basicConfig, path, suppress_warnings=True)
            if entry == "config_file_preferred":
                got = getattr(m.PreferredUnits, slot)
                if known:
                    if got is not wantU:
                        chk.violation("C18.NameNotResolved", key, {**det, "slot": slot, "got": safe(got)})
                else:
                    vel_ok = slot == "velocity" or m.PreferredUnits.velocity is m.Unit.MPS
                    wgt_ok = slot == "weight" or m.PreferredUnits.weight is m.Unit.Gram
                    if not (vel_ok and wgt_ok):
                        chk.violation("C18.NameNotResolved", {**key, "entry": "config_file_preferred(several entries)"},
                                      {**det, "velocity": safe(m.PreferredUnits.velocity), "weight": safe(m.PreferredUnits.weight)})
                    m.PreferredUnits.velocity, m.PreferredUnits.weight = before["velocity"], before["weight"]
                    if not unchanged():
                        chk.violation("C18.UnknownNameChangedSettings", key, {**det, "slot": slot})
            else:
                g = m.get_global_max_calc_step_size() >> m.Unit.Foot
                if known:
                    wantg = m.Unit.Foot(wantU(2.0)).raw_value / 12.0 if False else (wantU(2.0) >> m.Unit.Foot)
                    if abs(g - wantg) > 1e-9 * max(1.0, wantg):
                        chk.violation("C18.NameNotResolved", key, {**det, "global_step_ft": g, "want_ft": wantg})
                elif abs(g - 0.5) > 1e-12:
                    chk.violation("C18.UnknownNameChangedSettings", key, {**det, "global_step_ft": g})
            os.unlink(path)
    core.reset_world()
    chk.traces += len(cases)


# ---------------------------------------------------------------------------------------------------
# honoured settings on real computations
# ---------------------------------------------------------------------------------------------------

def honoured(chk, rng, n):
    import py_ballisticcalc as m
    U = m.Unit
    outs, pairs = [], []
    tid = 100000
    for i in range(n):
        # ---- gravity: in a vacuum the vertical velocity changes by exactly g * dt per step
        g = rng.choice([-32.17405, -10.0, -5.32, -1.0])
        cfgd = {"cGravityConstant": g, "max_calc_step_size_feet": rng.choice([1.0, 2.0])} if g != -32.17405 else {"max_calc_step_size_feet": 1.0}
        p = {"table": "G1", "bc": 0.4, "mv_fps": rng.choice([800.0, 2700.0]), "sight_in": 2.0, "look_deg": rng.choice([0.0, 10.0]),
             "alt_ft": 0.0, "winds": [], "vacuum": True}
        core.reset_world()
        shot = shots.build_shot(p)
        calc = shots.build_calc(cfgd)
        rec = integ.Recorder().install()
        try:
            calc.fire(shot, U.Foot(200.0), U.Foot(50.0))
        except m.RangeError:
            pass
        finally:
            rec.remove()
        c = rec.calls[-1]
        ok = all(abs((it["post_v"].y - it["pre_v"].y) - g * it["dt"]) <= 1e-9 * abs(g * it["dt"]) + 1e-12 for it in c["iters"])
        tid += 1
        pairs.append({"tid": tid, "ev": "Pair", "clause": "C18.GravityNotHonoured", "ok": bool(ok and c["iters"])})
        outs.append({"tid": tid, "lines": [], "sc": {"gravity": g, "shot": p, "cfg": cfgd}, "summ": {}, "outcome": "ok"})
        chk.stratum("gravity_default" if g == -32.17405 else "gravity_custom")
        chk.count(1, ("gravity", i))
        # ... and the same two settings in the ZEROING path of the same calculator (its trial trajectories, hook H2): the
        # vertical velocity changes by g x dt and the air-relative advance stays within the calculator's step there as well
        recz = integ.Recorder(keep_integrate=False).install()
        impl.outcome(calc.set_weapon_zero, shot, U.Yard(rng.choice([40, 90])))
        recz.remove()
        ics = [c_ for z_ in recz.zcalls for c_ in z_["integrate_calls"] if c_["last"]]
        ms_ = cfgd["max_calc_step_size_feet"]
        okz = bool(ics)
        for c_ in ics:
            for it in (c_["last"], c_["prev"]):
                if it is None:
                    continue
                okz = okz and abs((it["post_v"].y - it["pre_v"].y) - g * it["dt"]) <= 1e-9 * abs(g * it["dt"]) + 1e-12
                okz = okz and it["pre_v"].magnitude() * it["dt"] <= ms_ / 2.0 * (1 + 1e-9)
        tid += 1
        pairs.append({"tid": tid, "ev": "Pair", "clause": "C18.SettingNotHonouredWhileZeroing", "ok": bool(okz)})
        outs.append({"tid": tid, "lines": [], "sc": {"gravity": g, "shot": p, "cfg": cfgd, "path": "zeroing"}, "summ": {}, "outcome": "ok"})
        chk.stratum("zeroing_path_settings")
        # ---- limits: a calculator with custom limits vs the same shot on a default calculator
        # (among them settings that are not whole numbers: a setting means its value, whatever number type its default is written in)
        lim = [{"cMaximumDrop": -2.5}, {"cMinimumVelocity": 2000.0}, {"cMaximumDrop": -0.75}, {"cMinimumAltitude": 995.0}, {"cMaximumDrop": -3.0},
               {"cMaximumDrop": -2.0, "cMinimumVelocity": 1500.0}, {"cMinimumVelocity": 1999.5, "cMinimumAltitude": 996.25}][i % 7]
        if any(float(v_) != int(v_) for v_ in lim.values()):
            chk.stratum("limits_that_are_not_whole_numbers")
        p2 = shots.gen_shot(rng, winds=0, look=0.0)
        p2["mv_fps"], p2["alt_ft"] = 2600.0, 1000.0
        if i % 2:
            # a floor this calculator was given that lies ABOVE the launch point, and the barrel pointing up: the setting governs
            # from the first step on (a default calculator flies on)
            lim = rng.choice([{"cMinimumAltitude": 1005.0}, {"cMaximumDrop": 1.0}, {"cMinimumAltitude": 1200.0, "cMaximumDrop": 40.0}])
            p2["rel_rad"] = rng.choice([0.02, 0.2])
            chk.stratum("limit_above_the_launch_point_barrel_up")
        base = {"shot": p2, "range_ft": 3000.0, "unit": "Foot", "step_ft": 300.0}
        tid += 1
        a = scen.run_fire({**base, "cfg": {"max_calc_step_size_feet": 2.0, **lim}, "tid": tid}, tid)
        tid += 1
        b = scen.run_fire({**base, "cfg": {"max_calc_step_size_feet": 2.0}, "tid": tid}, tid)
        outs += [a, b]
        chk.stratum("limits_custom")
        chk.count(2, ("limits", i))
        # ---- the step bound where air speed and ground speed differ most: a lobbed shot near its apex in a cross wind (the
        #      velocity floor lowered so that it flies on), and a head wind stronger than the projectile's ground speed
        for p3, cfg3 in (({"table": "G1", "bc": 0.3, "mv_fps": 400.0, "sight_in": 2.0, "look_deg": 0.0, "rel_rad": math.radians(rng.choice([88.0, 89.5])),
                           "alt_ft": 0.0, "winds": [[40.0, 90.0, 1e8]]},
                          {"max_calc_step_size_feet": 1.0, "cMinimumVelocity": 0.0, "cMaximumDrop": -1.0}),
                         ({"table": "G1", "bc": 0.2, "mv_fps": 60.0, "sight_in": 2.0, "look_deg": 0.0, "rel_rad": 0.2, "alt_ft": 0.0,
                           "winds": [[rng.choice([140.0, 200.0]), 180.0, 1e8]]},
                          {"max_calc_step_size_feet": 2.0, "cMinimumVelocity": 0.0})):
            tid += 1
            o3 = scen.run_fire({"shot": p3, "cfg": cfg3, "range_ft": 120.0, "unit": "Foot", "step_ft": 60.0, "tid": tid, "fresh_calc": True}, tid)
            outs.append(o3)
            chk.count(1, ("step_bound", tid))
            chk.stratum("air_speed_far_above_ground_speed")

        # (placed, not drawn: caps the search is certain to hit - 1 and 2 trials at an accuracy that needs four - and caps it does not)
        acc = [5e-6, 1e-5, 1e-3, 5e-6][i % 4]
        cap = [1, 2, 5, 20][i % 4]
        core.reset_world()
        shot = shots.build_shot({"table": "G7", "bc": 0.25, "mv_fps": 2700.0, "sight_in": 2.0, "look_deg": 0.0, "alt_ft": 0.0, "winds": []})
        calc = shots.build_calc({"cZeroFindingAccuracy": acc, "cMaxIterations": cap, "max_calc_step_size_feet": 1.0})
        rec = integ.Recorder(keep_integrate=False).install()
        o = impl.outcome(calc.set_weapon_zero, shot, U.Yard(rng.choice([100, 300])))
        rec.remove()
        z = rec.zcalls[-1]
        n_it = len(z["iters"])
        ok_cap = n_it <= cap
        ok_acc = (o[0] != "ok") or (z["iters"] and z["iters"][-1]["error"] <= acc)
        ok_err = (o[0] == "ok") or (isinstance(o[2], m.ZeroFindingError) and z["iters"][-1]["error"] > acc)
        tid += 1
        pairs.append({"tid": tid, "ev": "Pair", "clause": "C18.IterationCapNotHonoured", "ok": bool(ok_cap)})
        pairs.append({"tid": tid, "ev": "Pair", "clause": "C18.ZeroAccuracyNotHonoured", "ok": bool(ok_acc and ok_err)})
        outs.append({"tid": tid, "lines": [], "sc": {"accuracy": acc, "cap": cap, "iterations": n_it, "outcome": o[0] if o[0] == "ok" else o[1]},
                     "summ": {}, "outcome": "ok"})
        chk.stratum("zero_cap_hit" if o[0] != "ok" else "zero_converged")
        chk.count(1, ("zero", i))
    return outs, pairs


def run(chk: core.Check, replay=None) -> None:
    core.use_repo()
    thorough = chk.tier == "thorough"
    d = design(chk, 5 if thorough else 4)
    rng = random.Random(chk.seed * 29 + 18)
    # ---- settings histories
    behs = []
    for oversets, num in (('{{}, {"max_calc_step_size_feet"}, Settings}', 60 if thorough else 12), ("SUBSET Settings", 20 if thorough else 2)):
        d2 = dict(d, EffRule='"frozen"', MaxOps=7, OverSets=oversets)
        cfg, defs = core.consts(d2)
        gen = core.run_tlc("Gen_Config", cfg + "SPECIFICATION GenSpec\nINVARIANT Emit\n", defs=defs, workers=1, tags=["BEH"],
                           simulate=f"num={num}", depth=8, seed=chk.seed + 18)
        bb = gen.out("BEH")
        rng.shuffle(bb)
        behs += bb[: (3000 if thorough else 300)]
        chk.tlc_runs.append({"what": f"Gen_Config -simulate OverSets={oversets[:30]}", "behaviours": len(bb)})
    outs = replay_config(chk, behs, rng)
    chk.sample({"config_history": behs[0][:3]})
    # ---- honoured on real computations
    outs2, pairs = honoured(chk, rng, 12 if thorough else 3)
    outs += outs2
    lines = [l for o in outs for l in o.get("lines", [])] + pairs
    fails = core.validate_trace(chk, "Trace_Integrator", lines, "config Use() shots + honoured settings")
    by_out = {o["tid"]: o for o in outs}
    fail_tids = {}
    for tid, clause in fails:
        fail_tids.setdefault(tid, []).append(clause)
    for tid, cls in fail_tids.items():
        o = by_out.get(tid, {})
        for clause in cls:
            own = scen.owner(clause)
            if own == "machinery":
                if all(scen.owner(c_) == "machinery" for _, c_ in fails):
                    raise core.MachineryError(f"monitor: {clause} in trace {tid}")
                continue        # the implementation leaves the protocol on a tree that violates properties: see loopsuite.validate
            if own == "C18":
                chk.violation(clause, {"source": "real-shot"}, {"scenario": o.get("sc"), "summary": o.get("summ")})
            elif own == "C04" and (o.get("sc") or {}).get("cfg") and set((o["sc"]["cfg"])) & {"cMaximumDrop", "cMinimumVelocity", "cMinimumAltitude"}:
                # custom limits not honoured: only if the partner run on a default calculator (tid + 1) is clean
                if not fail_tids.get(tid + 1):
                    chk.violation("C18.LimitSettingNotHonoured", {"source": "real-shot", "clause": clause},
                                  {"scenario": o.get("sc"), "summary": o.get("summ")})
            else:
                chk.extra.setdefault("clauses_of_other_properties_observed", {}).setdefault(clause, 0)
                chk.extra["clauses_of_other_properties_observed"][clause] += 1
    chk.traces += len(outs)
    # ---- names
    gen = core.run_tlc("Gen_UnitNames", "SPECIFICATION Spec\nINVARIANT Emit\n", workers=1, tags=["CASE"])
    chk.tlc(gen, "Gen_UnitNames")
    cases = gen.out("CASE")
    if not thorough:
        # quick: every name through every entry point in every letter case; blanks/prefix variants sampled
        cases = [c for c in cases if (c["variant"][1] == "none" and c["variant"][2] == "1") or rng.random() < 0.08]
    with tempfile.TemporaryDirectory(dir=str(core.scratch())) as td:
        replay_names(chk, cases, td)
    chk.sample({"name_case": cases[7]})
    chk.require_strata(["zero_cap_hit", "zero_converged", "limits_that_are_not_whole_numbers", "cfg_settings_dict_reused", "cfg_SetGlobalStep", "cfg_ResetGlobals", "cfg_NewCalc", "cfg_Use", "cfg_nonpositive_global_step",
                        "cfg_use_with_global_changed", "gravity_custom", "limit_above_the_launch_point_barrel_up", "air_speed_far_above_ground_speed", "zeroing_path_settings", "limits_custom", "names_parse_unit", "names_set_pref",
                        "names_value_with_prefix", "names_value_preferred_name", "names_config_file_preferred",
                        "names_config_file_step_units", "names_unknown", "names_unknown_among_valid_entries"])
    chk.exhaustive = False
    chk.rule.append("settings: TLC-simulated histories of 7 operations over 2 calculators and all 256 constructor subsets, replayed on "
                    "real calculators; honoured: seeded shots for gravity / limits / zero accuracy / iteration cap; names: every "
                    "enumeration name, alias and unknown string x 4 letter cases x 6 entry points (blank / numeric-prefix variants "
                    "sampled in quick, exhaustive in thorough); non-trivial = a known name, or a history step >= 2")
    chk.assumptions += ["'governs' for the maximum step is checked as: air-relative advance <= the configured step in every "
                        "iteration, and an iteration count within 0.6-1.6 x range/(step/2)",
                        "slot names of PreferredUnits ('distance', ...) are accepted unit strings (tested feature) and not 'unknown'",
                        "a known name of another dimension than the slot is not exercised"]
