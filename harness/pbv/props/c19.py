"""C19 - sight click counts are the angular correction divided by the effective click value.

D   : Sight.tla (constructor outcome table; exact rational click counts; sign, linearity, axis independence,
      FFP invariance as invariants over all request histories of depth 2).
S->C: Gen_Sight enumerates every (sight, request) with the exact rational result and every rejected
      construction; replayed on the real Sight in several angular / distance units.
"""
from __future__ import annotations

from fractions import Fraction

from pbv import core, impl

QUICK = dict(planes=["FFP", "SFP", "LWIR", "XFP"], clicks=[-1, 0, 1, 2], cals=[0, 50, 100], tgts=[50, 100, 200],
             mags=[1, 2, 10], corrs=[-3, 0, 1, 5])
THOROUGH = dict(planes=["FFP", "SFP", "LWIR", "XFP", "ffp"], clicks=[-1, 0, 1, 2, 5], cals=[0, 50, 100, 300],
                tgts=[25, 50, 100, 200, 700], mags=[1, 2, 3, 10, 25], corrs=[-7, -3, 0, 1, 5, 12])


def _setstr(xs):
    return "{" + ", ".join(f'"{x}"' if isinstance(x, str) else str(x) for x in xs) + "}"


def _cfg(c):
    cfg = (f"CONSTANTS\n Planes = {_setstr(c['planes'])}\n Clicks <- ClicksC\n CalDists = {_setstr(c['cals'])}\n"
           f" TgtDists = {_setstr(c['tgts'])}\n Mags = {_setstr(c['mags'])}\n Corrs <- CorrsC\n")
    defs = f"ClicksC == {_setstr(c['clicks'])}\nCorrsC == {_setstr(c['corrs'])}"
    return cfg, defs


PROPS = ("SPECIFICATION Spec\nINVARIANT C19_RejectsBadSights\nINVARIANT C19_AcceptsGoodSights\nINVARIANT C19_KeepsSign\n"
         "INVARIANT C19_AxesIndependent\nINVARIANT C19_Linear\nINVARIANT C19_FFPInvariant\n")


def close(got: float, want: Fraction, rel: float) -> bool:
    w = float(want)
    return abs(got - w) <= rel * max(abs(w), 1e-12) if w != 0 else abs(got) <= 1e-12


def replay(chk, cases, variants):
    m = impl.pb()
    U = m.Unit
    from pbv import units as UA_
    dist_all = UA_.distance_variants()
    for ci, c in enumerate(cases):
        # the constructor re-displays the click sizes in PreferredUnits.adjustment: also under the tangent-based units
        # (every 3rd / 5th case), and with the caller re-displaying the click object it passed in afterwards
        pref_adj = U.CmPer100m if ci % 3 == 1 else (U.InchesPer100Yd if ci % 5 == 2 else None)
        redisplay = ci % 7 == 3
        for (ang_name, ang_unit, ang_per_mil, tol), (dist_unit, dist_per_yd) in (variants if pref_adj is None and not redisplay else variants[:1]):
            core.reset_world()
            if pref_adj is not None:
                m.PreferredUnits.adjustment = pref_adj
                chk.stratum("pref_adjustment_tangent_unit")
            # the spec's "unit" is the mil; the same physical sight expressed in another unit
            vclick = ang_unit(float(Fraction(c["vclick"], 10) * ang_per_mil))
            hclick = ang_unit(float(Fraction(c["hclick"], 10) * ang_per_mil))
            if pref_adj is None and ci % 4 == 2:
                # click sizes as BARE numbers: that many of the preferred ADJUSTMENT unit (the angular slot holds something else)
                m.PreferredUnits.adjustment = ang_unit
                m.PreferredUnits.angular = U.Degree if ang_unit != U.Degree else U.Mil
                vclick = float(Fraction(c["vclick"], 10) * ang_per_mil)
                hclick = float(Fraction(c["hclick"], 10) * ang_per_mil)
                chk.stratum("click_sizes_as_bare_numbers")
            # the spec's cal = 0 is "no calibration distance": given as None, or - the way a form field says "not set" - as a bare 0
            cal = [None, 0, None, 0.0][ci % 4] if c["cal"] == 0 else dist_unit(float(c["cal"] * dist_per_yd))
            if c["cal"] == 0 and cal is not None:
                chk.stratum("missing_calibration_given_as_bare_zero")
            o = impl.outcome(m.Sight, c["plane"], cal, hclick, vclick)
            key = {"plane": c["plane"], "vclick": c["vclick"], "hclick": c["hclick"], "cal": c["cal"],
                   "ang": ang_name, "dist": dist_unit.name}
            if c["status"] == "rejected":
                chk.count(1, ("rej", c["plane"], c["vclick"], c["hclick"], c["cal"], ang_name))
                chk.stratum("rejected")
                if o[0] == "ok":
                    chk.violation("C19.BadSightAccepted", key, {"case": c})
                continue
            if o[0] != "ok":
                chk.violation("C19.GoodSightRejected", key, {"case": c, "exc": o[1]})
                continue
            sight = o[1]
            if c["tgt"] == 0:
                continue
            if redisplay:
                if hasattr(vclick, "raw_value"):
                    vclick << U.InchesPer100Yd        # the caller looks at its own click objects in another unit
                    hclick << U.CmPer100m
                chk.stratum("caller_redisplays_click")
            if ci % 4 == 1:
                # ... at its calibration distance in another unit, and the preferred distance unit changes after construction
                if cal is not None:
                    cal << [U.Foot, U.Meter, U.Inch][ci % 3]
                m.PreferredUnits.distance = [U.Meter, U.Foot, U.Kilometer][(ci // 4) % 3]
                chk.stratum("distance_display_and_preference_changed_after_construction")
            want_v, want_h = Fraction(*c["v"]), Fraction(*c["h"])
            # the target distance in another unit than the calibration distance for every other case
            if ci % 2:
                tgt_unit, tgt_per_yd = dist_all[(ci // 2) % len(dist_all)]
                tgt = tgt_unit(float(c["tgt"] * tgt_per_yd))
                chk.stratum("target_and_calibration_in_different_units")
            else:
                tgt = dist_unit(float(c["tgt"] * dist_per_yd))
            vc = ang_unit(float(c["vcorr"] * ang_per_mil))
            hc = ang_unit(float(c["hcorr"] * ang_per_mil))
            # a row of an inclined shot: its sight-line distance is longer than its (down-range) distance, the target distance
            # of the row; every field that is not an input of the click computation differs from the one that is
            if ci % 3 == 0:
                row = impl.make_row(distance=tgt, drop_adj=vc, windage_adj=hc)
            else:
                row = impl.make_row(distance=tgt, drop_adj=vc, windage_adj=hc, look_distance=U.Foot((tgt >> U.Foot) * 1.25 + 7.0),
                                    height=U.Foot(33.0), target_drop=U.Foot(-4.5), time=1.5)
                chk.stratum("row_of_an_inclined_shot")
            if ci % 2 == 0:
                # the same sight was just asked about a target whose distance LOOKS like this one - the bare number of this distance's
                # raw magnitude (that many yards / preferred units), and a quantity of as many inches as this one has preferred units -
                # at the same magnification: every answer is about the distance it was asked for
                chk.stratum("sight_asked_about_a_look_alike_distance_just_before")
                impl.outcome(sight.get_adjustment, U.Inch(tgt >> m.PreferredUnits.distance), vc, hc, c["mag"])
                impl.outcome(sight.get_adjustment, float(tgt.raw_value), vc, hc, c["mag"])      # (the LAST request before this one)
            for entry, fn in (("get_adjustment", lambda: sight.get_adjustment(tgt, vc, hc, c["mag"])),
                              ("get_trajectory_adjustment", lambda: sight.get_trajectory_adjustment(row, c["mag"]))):
                o2 = impl.outcome(fn)
                k2 = {**key, "tgt": c["tgt"], "mag": c["mag"], "vcorr": c["vcorr"], "hcorr": c["hcorr"], "entry": entry}
                chk.count(1, (entry, c["plane"], c["vclick"], c["hclick"], c["cal"], c["tgt"], c["mag"], c["vcorr"],
                              c["hcorr"], ang_name, int(dist_unit)) if (c["vcorr"] or c["hcorr"]) else None)
                chk.stratum(c["plane"])
                if o2[0] != "ok":
                    chk.violation("C19.AdjustRaised", k2, {"case": c, "exc": o2[1]})
                    continue
                got = o2[1]
                if not close(got.vertical, want_v, tol) or not close(got.horizontal, want_h, tol):
                    chk.violation("C19.WrongClicks", k2, {"case": c, "got": [got.vertical, got.horizontal],
                                                          "want": [str(want_v), str(want_h)]})


def run(chk: core.Check, replay_path=None, **_):
    core.use_repo(hooks=False)
    core.reset_world()
    m = impl.pb()
    U = m.Unit
    c = THOROUGH if chk.tier == "thorough" else QUICK
    cfg, defs = _cfg(c)
    r = chk.tlc(core.run_tlc("Sight", cfg + PROPS, defs=defs, coverage=True), "Sight design model")
    for a in ("Construct", "Adjust"):
        if not r.coverage.get(f"Sight.{a}"):
            raise core.MachineryError(f"Sight.{a} never taken")
    gen = core.run_tlc("Gen_Sight", cfg + "INIT Init\nNEXT GenNext\nINVARIANT Emit\n", defs=defs,
                       workers=1, tags=["CASE"])
    chk.tlc(gen, "Gen_Sight")
    cases = gen.out("CASE")
    import math
    from pbv import units as UA
    ang = UA.angular_variants()
    dist = UA.distance_variants()
    variants = [(ang[0], dist[0])] + [(a, dist[i % len(dist)]) for i, a in enumerate(ang[1:], 1)]
    if chk.tier == "thorough":
        variants = [(a, d) for a in ang for d in dist]
    replay(chk, cases, variants)
    chk.traces += len(cases)
    for x in cases[:: max(1, len(cases) // 4)][:4]:
        chk.sample(x)
    core.reset_world()
    chk.require_strata(["sight_asked_about_a_look_alike_distance_just_before", "click_sizes_as_bare_numbers", "missing_calibration_given_as_bare_zero", "row_of_an_inclined_shot", "rejected", "FFP", "SFP", "LWIR", "pref_adjustment_tangent_unit", "caller_redisplays_click",
                        "target_and_calibration_in_different_units",
                        "distance_display_and_preference_changed_after_construction"])
    chk.extra["unit_variants"] = [f"{a[0]}/{d[0]}" for a, d in variants]
    chk.rule.append("every (focal plane, click sizes, calibration distance) x (target distance, magnification, corrections) of the "
                    "bounded Sight model, each in several angular/distance units and through both entry points; "
                    "non-trivial = a non-zero correction; rejected constructions counted separately")
    chk.assumptions += ["click counts compared with the spec's exact rational to 1e-9 relative (1e-6 for tangent-based angular units)",
                        "unit variants use the SI definitions exported by UnitAlgebra (C06)"]
