"""C20 - trajectory look-ups return the first row satisfying the query.

D   : Lookup.tla - the bisection procedures, small-step, against the sequential-scan definition.
S->C: Gen_Lookup enumerates every small trajectory x query x entry point with the REQUIRED
      answer set; each case is replayed into the real helpers / HitResult accessors.
"""
from __future__ import annotations

import math

from pbv import core, impl

CLAUSES = ("C20.WrongIndex", "C20.WrongException", "C20.WrongSentinel")


def _cfg(maxlen: int, maxval: int, tie: str = "earliest") -> str:
    return (f'CONSTANTS\n MaxLen = {maxlen}\n MaxVal = {maxval}\n Devs = {{0, 2, 10}}\n TieRule = "{tie}"\n')


def design(chk: core.Check, maxlen: int, maxval: int) -> None:
    cfg = _cfg(maxlen, maxval) + ("SPECIFICATION Spec\nINVARIANT TypeOK\nINVARIANT C20_ResultIsRequired\n"
                                  "INVARIANT C20_ResultInRange\nINVARIANT C20_BisectBracket\nPROPERTY C20_Terminates\n")
    r = chk.tlc(core.run_tlc("Lookup", cfg, coverage=True), f"Lookup MaxLen={maxlen} MaxVal={maxval} TieRule=earliest")
    for act in ("BisectProbe", "BisectDone", "NearDone", "ApexProbe", "ApexDone"):
        if not r.coverage.get(f"Lookup.{act}"):
            raise core.MachineryError(f"Lookup action {act} never taken (vacuous model)")
    chk.extra["action_coverage"] = {k: v for k, v in r.coverage.items() if k.startswith("Lookup.")}
    # the named deviation of the pinned code (last row of a run of equal times) must be refuted by TLC,
    # otherwise the tie clause of the spec is not exercised by the bounded model
    r2 = core.run_tlc("Lookup", _cfg(min(maxlen, 3), min(maxval, 2), "asis") +
                      "SPECIFICATION Spec\nINVARIANT C20_ResultIsRequired\n")
    chk.tlc_runs.append({"what": "Lookup TieRule=asis (expected counterexample)", "violated": r2.violated,
                         "distinct_states": r2.distinct})
    if r2.ok:
        raise core.MachineryError("TieRule=asis was expected to violate C20_ResultIsRequired in the bounded model")


def _classify(o, idx_expected):
    """map an implementation outcome to an index / sentinel"""
    if o[0] == "ok":
        return o[1]
    return ("exc", o[1])


FLAG_ROTATION = [8, 2, 8, 1, 4, 8 | 2, 0, 8 | 4, 8 | 1]


def _flag(i: int, salt: int) -> int:
    """the look-ups are about distances, times and heights: the kind of a row (range / zero-up / zero-down / Mach / closing row,
    as in extra-data output) rotates and must not matter; even salts keep plain range rows"""
    return 8 if salt % 2 == 0 else FLAG_ROTATION[(i + salt) % len(FLAG_ROTATION)]


_DENSE = {}


def _dense(m, shot):
    if "hr" not in _DENSE:
        _DENSE["hr"] = m.HitResult(shot, [impl.make_row(time=i / 8.0, distance=m.Unit.Foot(i / 8.0), flag=8) for i in range(65)], False)
    return _DENSE["hr"]


def replay_case(chk: core.Check, case: dict, units) -> None:
    m = impl.pb()
    from py_ballisticcalc import helpers as H
    op, col, q2, dev2, req = case["op"], case["col"], case["q"], case["dev"], set(case["req"])
    n = len(col)
    shot = impl.simple_shot()
    key_base = {"op": op, "col": col, "q2": q2, "dev2": dev2}
    nontrivial = n >= 2

    def bad(clause, entry, got, unit=None):
        chk.violation(clause, {**key_base, "entry": entry, "n": n, "repeats": len(set(col)) < n,
                               "empty": n == 0, "unit": str(unit)},
                      {"case": case, "entry": entry, "got": repr(got), "required": sorted(req)})

    if op == "dist":
        # the model is about ORDER: its half-integer grid is embedded into the floats by any increasing map. Besides the plain
        # one (k/2 in every unit) two TIGHT ones in the library's own unit: neighbouring grid points are neighbouring floats
        # (around 3600 in, and the denormals above 0), so a query "between two rows" is one ulp above the lower row
        embeddings = [(U, (lambda k: k / 2.0), "plain") for U in units]
        if (sum(col) + q2) % 3 == 0 or n <= 2:
            ulp = math.ulp(3600.0)
            embeddings += [(m.Unit.Inch, (lambda k: 3600.0 + k * ulp), "tight"), (m.Unit.Inch, (lambda k: k * 5e-324), "tight")]
        for U, val, emb in embeddings:
            exact_unit = U in (m.Unit.Inch, m.Unit.Foot, m.Unit.Yard)
            if not exact_unit and q2 % 2 == 0:
                # metric units do not round-trip exactly, so "on a row" is asked the way a caller would: the number the row itself
                # READS in that unit is handed back to the helpers that compare in the unit of the question - the first row reading
                # at least that number is that row
                if emb == "plain" and (q2 // 2) in col:
                    rows_ = [impl.make_row(time=float(i), distance=U(val(2 * v)), flag=_flag(i, q2 + n)) for i, v in enumerate(col)]
                    hr_ = m.HitResult(shot, rows_, False)
                    j = col.index(q2 // 2)
                    qq = rows_[j].distance >> U
                    chk.stratum("row_value_read_in_a_metric_unit_handed_back")
                    for name, fn, want_ in (("helpers.find_index_of_point_for_distance", lambda: H.find_index_of_point_for_distance(hr_, qq, U), j),
                                            ("helpers.find_time_for_distance_in_shot", lambda: H.find_time_for_distance_in_shot(hr_, qq, U), float(j)),
                                            ("helpers.find_first_index_matching_condition", lambda: H.find_first_index_matching_condition(hr_, lambda e: (e.distance >> U) >= qq), j)):
                        o = impl.outcome(fn)
                        chk.count(1, ("dist-readback", tuple(col), q2, name, int(U)))
                        if o[0] != "ok":
                            bad("C20.WrongException", name + " (row value read back)", o[1], U)
                        elif o[1] != want_:
                            bad("C20.WrongIndex", name + " (row value read back)", o[1], U)
                continue
            rows = [impl.make_row(time=float(i), distance=U(val(2 * v)), flag=_flag(i, q2 + n)) for i, v in enumerate(col)]
            if emb == "tight":
                chk.stratum("rows_and_queries_one_ulp_apart")
            if (sum(col) + q2 + n) % 2:
                # display history: the caller has looked at every other row in another unit (`<<` re-labels in place, the
                # magnitude is untouched): the order of the rows is the order of their magnitudes, whatever they display in
                for i, r_ in enumerate(rows):
                    if i % 2 == (q2 % 2):
                        r_.distance << units[(units.index(U) + 1 + i) % len(units)]
                        r_.look_distance << units[(units.index(U) + 2 + i) % len(units)]
                chk.stratum("rows_in_mixed_display_units")
            hr = m.HitResult(shot, rows, False)
            q = val(q2)
            if (sum(col) + q2) % 2 == 0 and emb == "plain":
                # ANOTHER result (a much denser card) is looked up at the same distance just before: what a look-up leaves behind
                # belongs to the result it was made on
                chk.stratum("another_denser_result_looked_up_just_before")
                dn = _dense(m, shot)
                impl.outcome(dn.index_at_distance, U(q))
                impl.outcome(dn.get_at_distance, m.Unit.Foot(1.0))
            if (sum(col) + q2) % 3 != 2:
                # the SAME result was asked at farther distances first (an inward range card; a danger space asked further out): the
                # answer to this question is still the first row at or beyond it, counted from the muzzle
                chk.stratum("same_result_asked_farther_out_first")
                impl.outcome(hr.index_at_distance, U(val(q2 + 4)))
                impl.outcome(hr.get_at_distance, U(val(q2 + 2)))
                impl.outcome(hr.index_at_distance, U(val(q2 + 1)))
            entries = {
                "HitResult.index_at_distance": lambda: hr.index_at_distance(U(q)),
                "helpers.find_index_of_point_for_distance": lambda: H.find_index_of_point_for_distance(hr, q, U),
                "helpers.find_first_index_satisfying_monotonic_condition":
                    lambda: H.find_first_index_satisfying_monotonic_condition(rows, lambda e: (e.distance >> U) >= q),
                "helpers.find_first_index_matching_condition":
                    lambda: H.find_first_index_matching_condition(hr, lambda e: (e.distance >> U) >= q),
            }
            for name, fn in entries.items():
                o = impl.outcome(fn)
                chk.count(1, (op, tuple(col), q2, name, int(U), emb) if nontrivial else None)
                if o[0] != "ok":
                    bad("C20.WrongException", name, o[1], U)
                elif o[1] not in req:
                    bad("C20.WrongIndex", name, o[1], U)
            want = next(iter(req))
            o = impl.outcome(hr.get_at_distance, U(q))
            chk.count(1)
            if want == -1:
                if not (o[0] == "exc" and isinstance(o[2], ArithmeticError)):
                    bad("C20.WrongSentinel", "HitResult.get_at_distance", o[1], U)
            elif o[0] != "ok" or o[1] is not rows[want]:
                bad("C20.WrongIndex", "HitResult.get_at_distance", o[1] if o[0] != "ok" else rows.index(o[1]), U)
            o = impl.outcome(H.find_time_for_distance_in_shot, hr, q, U)
            chk.count(1)
            if o[0] != "ok":
                bad("C20.WrongException", "helpers.find_time_for_distance_in_shot", o[1], U)
            elif want == -1:
                if not (isinstance(o[1], float) and math.isnan(o[1])):
                    bad("C20.WrongSentinel", "helpers.find_time_for_distance_in_shot", o[1], U)
            elif o[1] != float(want):
                bad("C20.WrongIndex", "helpers.find_time_for_distance_in_shot", o[1], U)
    elif op in ("time", "near"):
        rows = [impl.make_row(time=float(v), distance=m.Unit.Foot(float(i)), flag=_flag(i, q2 + dev2 + n)) for i, v in enumerate(col)]
        hr = m.HitResult(shot, rows, False)
        q = q2 / 2.0
        if op == "time":
            name = "helpers.find_index_for_time_point(strict)"
            o = impl.outcome(H.find_index_for_time_point, hr, q, True)
        else:
            name = "helpers.find_index_for_time_point(nearest)"
            o = impl.outcome(H.find_index_for_time_point, hr, q, False, dev2 / 2.0)
        chk.count(1, (op, tuple(col), q2, dev2) if nontrivial else None)
        if o[0] != "ok":
            bad("C20.WrongException", name, o[1])
        elif o[1] not in req:
            bad("C20.WrongIndex", name, o[1])
        lo, hi = (q2 - 1) // 2, (q2 + 1) // 2
        if op == "near" and q2 % 2 and lo in col and hi in col and dev2 >= 2:
            # a TIE of the model (query midway between two adjacent row times).  Embedded in decimal times (multiples of 0.01,
            # 0.02, 0.1 s: not dyadic) the float midpoint is rounded, so the query at / one ulp around it is NOT a tie any more:
            # which of the two rows is nearer is decided in exact rational arithmetic on the float values (the projection),
            # what follows from it - the nearer row, the earlier one on a tie, first of equal rows - is the model's rule
            from fractions import Fraction as Fr
            for sc in (0.01, 0.02, 0.1, 0.3):
                a, b = lo * sc, hi * sc
                rows2 = [impl.make_row(time=v * sc, distance=m.Unit.Foot(float(i)), flag=_flag(i, q2 + n)) for i, v in enumerate(col)]
                hr2 = m.HitResult(shot, rows2, False)
                mid = (a + b) / 2
                for qq in (mid, math.nextafter(mid, math.inf), math.nextafter(mid, -math.inf)):
                    da, db = Fr(qq) - Fr(a), Fr(b) - Fr(qq)
                    want2 = col.index(lo) if da <= db else col.index(hi)
                    o2 = impl.outcome(H.find_index_for_time_point, hr2, qq, False, 5.0)
                    chk.count(1, ("near-decimal", tuple(col), q2, sc, qq))
                    chk.stratum("near_midpoint_of_decimal_times" + ("_later_row_nearer" if da > db else ""))
                    if o2[0] != "ok":
                        bad("C20.WrongException", name + " decimal times", o2[1])
                    elif o2[1] != want2:
                        bad("C20.WrongIndex", name + " decimal times", {"got": o2[1], "want": want2, "query": qq, "rows": [v * sc for v in col]})
    elif op == "apex":
        rows = [impl.make_row(time=float(i), distance=m.Unit.Foot(float(i)), height=m.Unit.Foot(float(v)), flag=_flag(i, sum(col) + n))
                for i, v in enumerate(col)]
        # (rows of an extra-data trajectory: zero crossings and the Mach row may come BEFORE the highest row - an uphill shot)
        if (sum(col) + n) % 2:
            for i, r_ in enumerate(rows):
                if i % 2:
                    r_.height << units[(1 + i) % len(units)]
            chk.stratum("rows_in_mixed_display_units")
        hr = m.HitResult(shot, rows, False)
        for name, fn in (("helpers.find_index_of_apex_point", lambda: H.find_index_of_apex_point(hr)),
                         ("helpers.find_index_of_apex_in_points", lambda: H.find_index_of_apex_in_points(rows))):
            o = impl.outcome(fn)
            chk.count(1, (op, tuple(col), name) if nontrivial else None)
            if o[0] != "ok":
                bad("C20.WrongException", name, o[1])
            elif o[1] not in req:
                bad("C20.WrongIndex", name, o[1])
    chk.stratum(op)
    if n == 0:
        chk.stratum("empty")
    if len(set(col)) < n:
        chk.stratum("repeats")
    if -1 in req:
        chk.stratum("sentinel")


def run(chk: core.Check, replay=None) -> None:
    core.use_repo(hooks=False)
    core.reset_world()
    m = impl.pb()
    thorough = chk.tier == "thorough"
    maxlen, maxval = (6, 5) if thorough else (4, 3)
    design(chk, maxlen, maxval)
    gen = core.run_tlc("Gen_Lookup", _cfg(maxlen, maxval) + "INIT Init\nNEXT GenNext\nINVARIANT Emit\n",
                       workers=1, tags=["CASE"], timeout=1800)
    cases = gen.out("CASE")
    chk.tlc(gen, f"Gen_Lookup MaxLen={maxlen} MaxVal={maxval}")
    if len(cases) != gen.distinct:
        raise core.MachineryError(f"Gen_Lookup emitted {len(cases)} cases for {gen.distinct} states")
    units = [m.Unit.Foot, m.Unit.Inch, m.Unit.Yard, m.Unit.Meter, m.Unit.Centimeter]
    for c in cases:
        replay_case(chk, c, units)
        chk.traces += 1
    for c in cases[:: max(1, len(cases) // 5)][:5]:
        chk.sample(c)
    chk.require_strata(["dist", "time", "near", "apex", "empty", "repeats", "sentinel", "rows_in_mixed_display_units", "rows_and_queries_one_ulp_apart", "near_midpoint_of_decimal_times", "near_midpoint_of_decimal_times_later_row_nearer", "another_denser_result_looked_up_just_before", "same_result_asked_farther_out_first", "row_value_read_in_a_metric_unit_handed_back"])
    chk.rule.append("every non-decreasing sequence (len<=%d over 0..%d) x every (half-)integer query x every entry point, "
                    "generated by TLC from Gen_Lookup; non-trivial = sequence length >= 2; distinct by (op, sequence, "
                    "query, entry point, unit)" % (maxlen, maxval))
    chk.assumptions += ["row values are small integers in inch/foot/yard (exact in floats); metric units only for "
                        "queries strictly between row values", "negative time queries excluded (documented ValueError)"]
