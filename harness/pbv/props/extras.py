"""./check EXTRAS - specification modules beyond the listed properties, each bound to the code the same way:
Atmo.tla (humidity setter, vacuum, altitude-query branch), Results.tla (HitResult.zeros / flag helpers / TrajFlag.name),
ConfigLoad.tla (which config file basicConfig loads; argument combinations), VectorAlg.tla (Vector algebra).
Not registered in MANIFEST.json (no listed property is decided here); evidence goes to evidence_beyond_listed/EXTRAS.json."""
from __future__ import annotations

import math
import os
import random
import tempfile
import warnings

from pbv import core, impl

try:
    import pandas as _pd  # noqa: F401  (optional dependency of the library's table / plot output)
    _HAVE_PANDAS = True
except Exception:  # noqa
    _HAVE_PANDAS = False


def atmo(chk, thorough):
    m = impl.pb()
    U = m.Unit
    hums = "{-1000, -1, 0, 5, 500, 1000, 1500, 50000, 100000, 100001, 150000}"
    deltas = "{-31, -30, -29, -1, 0, 29, 30, 31, 5000}"
    for vac in (False, True):
        d = dict(Humidities=hums, Deltas=deltas, IsVacuum=vac, MaxOps=3)
        cfg, defs = core.consts(d)
        chk.tlc(core.run_tlc("Atmo", cfg + "SPECIFICATION Spec\nINVARIANT A_StoredIsFraction\nPROPERTY A_RejectedChangesNothing\n"
                             "INVARIANT A_PercentEqualsFraction\nINVARIANT A_StationBranchNearStation\n", defs=defs, coverage=True),
                f"Atmo vacuum={vac}")
        cfg, defs = core.consts(dict(d, MaxOps=4))
        gen = core.run_tlc("Gen_Atmo", cfg + "SPECIFICATION GenSpec\nINVARIANT Emit\n", defs=defs, workers=1, tags=["BEH"],
                           simulate=f"num={30 if thorough else 6}", depth=5, seed=chk.seed)
        behs = gen.out("BEH")
        random.Random(chk.seed).shuffle(behs)
        for b in behs[: (4000 if thorough else 600)]:
            h0 = b["h0"] / 1000.0
            a = (m.Vacuum(U.Foot(1000), U.Celsius(10)) if vac else m.Atmo(U.Foot(1000), U.hPa(950), U.Celsius(10), h0))
            if vac:
                a.humidity = h0
            for step, e in enumerate(b["ops"]):
                op = e["op"]
                chk.count(1, ("atmo", vac, step, op["a"], op["arg"]))
                chk.stratum("atmo_" + op["a"])
                k = {"module": "Atmo", "op": op["a"], "vacuum": vac}
                det = {"behaviour": b, "step": step}
                if op["a"] == "SetHumidity":
                    before = (a.humidity, a.density_ratio)
                    o = impl.outcome(setattr, a, "humidity", op["arg"] / 1000.0)
                    if op["ok"]:
                        if o[0] != "ok":
                            chk.violation("X.Atmo.HumidityRejected", k, {**det, "exc": o[1]})
                    else:
                        chk.stratum("atmo_rejected")
                        if o[0] == "ok" or not isinstance(o[2], ValueError):
                            chk.violation("X.Atmo.BadHumidityAccepted", k, det)
                        elif (a.humidity, a.density_ratio) != before:
                            chk.violation("X.Atmo.RejectedHumidityChangedState", k, det)
                    if abs(a.humidity - e["hum"] / 1000.0) > 1e-15:
                        chk.violation("X.Atmo.StoredHumidity", k, {**det, "got": a.humidity, "want": e["hum"] / 1000.0})
                    # density is a function of the stored state: equal to a freshly built atmosphere with this humidity
                    if vac:
                        if a.density_ratio != 0:
                            chk.violation("X.Atmo.VacuumHasDensity", k, det)
                    else:
                        fresh = m.Atmo(U.Foot(1000), U.hPa(950), U.Celsius(10), a.humidity)
                        if fresh.density_ratio != a.density_ratio:
                            chk.violation("X.Atmo.DensityDependsOnHistory", k, {**det, "got": a.density_ratio, "fresh": fresh.density_ratio})
                else:
                    with warnings.catch_warnings():
                        warnings.simplefilter("ignore")
                        dr, mach = a.get_density_factor_and_mach_for_altitude(1000.0 + op["arg"])
                    station = (dr == a.density_ratio and mach == a._mach)
                    if op["res"] == "station" and not station:
                        chk.violation("X.Atmo.StationBranchNotStationValues", k, det)
                    if op["res"] == "model" and not vac and (dr == a.density_ratio):
                        chk.violation("X.Atmo.ModelBranchReturnedStationValues", k, det)
                    if vac and dr != 0:
                        chk.violation("X.Atmo.VacuumHasDensity", k, det)
        chk.traces += min(len(behs), 4000 if thorough else 600)
    # percent and fraction mean the same, bit for bit
    for f in (0.0, 0.005, 0.3, 0.5, 1.0):
        o1 = impl.outcome(m.Atmo, U.Foot(0), U.InHg(29.92), U.Fahrenheit(80), f)
        o2 = impl.outcome(m.Atmo, U.Foot(0), U.InHg(29.92), U.Fahrenheit(80), f * 100 if f * 100 > 1 else f)
        chk.count(1)
        if o1[0] != "ok" or o2[0] != "ok":
            chk.violation("X.Atmo.HumidityRejected", {"module": "Atmo", "fraction": f}, {"exc": [o1[1], o2[1]]})
            continue
        a1, a2 = o1[1], o2[1]
        if a1.density_ratio != a2.density_ratio:
            chk.violation("X.Atmo.PercentDiffersFromFraction", {"module": "Atmo", "fraction": f}, {})


def results(chk, thorough):
    m = impl.pb()
    from py_ballisticcalc import helpers as H
    d = dict(MaxLen=4 if thorough else 3, RowFlags='{{}, {"R"}, {"U"}, {"D"}, {"M"}, {"R", "U"}, {"R", "D", "M"}, {"U", "D"}}')
    cfg, defs = core.consts(d)
    chk.tlc(core.run_tlc("Results", cfg + "SPECIFICATION Spec\nINVARIANT R_ZerosInOrder\nINVARIANT R_NameInjective\nINVARIANT R_ValueRange\nINVARIANT R_FirstBelowIsFirst\n",
                         defs=defs), "Results")
    gen = core.run_tlc("Gen_Results", cfg + "INIT Init\nNEXT Next\nINVARIANT Emit\n", defs=defs, workers=1, tags=["CASE", "NAMES"])
    chk.tlc(gen, "Gen_Results")
    names = gen.out("NAMES")[0]
    for _, rec in (names.items() if isinstance(names, dict) else enumerate(names)):
        got = m.TrajFlag.name(rec["v"])
        chk.count(1, ("name", rec["v"]))
        chk.stratum("results_flag_names")
        if got != "|".join(rec["name"]):
            chk.violation("X.Results.FlagName", {"module": "Results", "value": rec["v"]}, {"got": got, "want": "|".join(rec["name"])})
    shot = impl.simple_shot()
    for c in gen.out("CASE"):
        rows = [impl.make_row(time=float(i), distance=m.Unit.Foot(float(i)), flag=v, velocity=m.Unit.MPS(float(c["vel"][i]))) for i, v in enumerate(c["traj"])]
        hr = m.HitResult(shot, rows, c["extra"])
        k = {"module": "Results", "extra": c["extra"]}
        for qi, want_i in enumerate(c["firstBelow"]):
            for un in (m.Unit.MPS, m.Unit.FPS, m.Unit.KMH):
                thr = float(qi) if un == m.Unit.MPS else (m.Unit.MPS(float(qi)) >> un)
                o_ = impl.outcome(H.find_velocity_less_than_index, hr, thr, un)
                chk.count(1)
                chk.stratum("results_first_row_slower_than")
                if o_[0] != "ok" or o_[1] != want_i:
                    chk.violation("X.Results.FirstRowSlowerThan", k, {"case": c, "threshold_mps": qi, "unit": str(un), "got": o_[1], "want": want_i})
        chk.count(1, ("results", tuple(c["traj"]), c["extra"]) if len(rows) >= 2 else None)
        o = impl.outcome(hr.zeros)
        if not c["extra"]:
            chk.stratum("results_no_extra")
            if not (o[0] == "exc" and isinstance(o[2], AttributeError)):
                chk.violation("X.Results.ZerosWithoutExtraData", k, {"case": c, "got": o[1]})
        elif not c["zeros"]:
            chk.stratum("results_no_zero_rows")
            if not (o[0] == "exc" and isinstance(o[2], ArithmeticError)):
                chk.violation("X.Results.ZerosSentinel", k, {"case": c})
        else:
            chk.stratum("results_zeros")
            if o[0] != "ok" or [next(i for i, r in enumerate(rows) if r is z) + 1 for z in o[1]] != c["zeros"]:
                chk.violation("X.Results.ZerosRows", k, {"case": c})
        for name, fn, want in (("flag ZERO_UP", lambda: H.find_index_of_point_with_flag(hr, m.TrajFlag.ZERO_UP), c["firstU"]),
                               ("touch point", lambda: H.find_touch_point_index(hr), c["firstD"]),
                               ("mach point", lambda: H.find_mach_point_index(hr), c["firstM"])):
            o2 = impl.outcome(fn)
            if o2[0] != "ok" or o2[1] != want:
                chk.violation("X.Results.FirstWithFlag", {**k, "helper": name}, {"case": c, "got": o2[1], "want": want})
    chk.traces += len(gen.out("CASE"))


def config_load(chk, thorough):
    m = impl.pb()
    U = m.Unit
    depth = 3
    cfg, defs = core.consts(dict(Depth=depth))
    chk.tlc(core.run_tlc("ConfigLoad", cfg + "SPECIFICATION Spec\nINVARIANT L_NearestWins\nINVARIANT L_DotWins\n", defs=defs), "ConfigLoad")
    gen = core.run_tlc("Gen_ConfigLoad", cfg + "SPECIFICATION Spec\nINVARIANT Emit\n", defs=defs, workers=1, tags=["CASE"])
    chk.tlc(gen, "Gen_ConfigLoad")
    # each candidate file selects a distinct distance unit so that the loaded file can be recognised
    units = {(1, "dot"): "Inch", (1, "plain"): "Foot", (2, "dot"): "Mile", (2, "plain"): "Meter", (3, "dot"): "Kilometer",
             (3, "plain"): "Centimeter", (0, "package"): "Yard"}
    cwd0 = os.getcwd()
    base = tempfile.mkdtemp(prefix="pbv_cfg_", dir="/var/tmp")
    try:
        for ci, c in enumerate(gen.out("CASE")):
            root = os.path.join(base, f"c{ci}")
            dirs = {}
            p = root
            for lvl in range(depth, 0, -1):
                p = os.path.join(p, f"d{lvl}")
                dirs[lvl] = p
            os.makedirs(dirs[1])
            for lvl in range(1, depth + 1):
                cont = c["tree"][lvl - 1]
                for kind, fname in (("dot", ".pybc.toml"), ("plain", "pybc.toml")):
                    if cont in (kind, "both"):
                        with open(os.path.join(dirs[lvl], fname), "w") as f:
                            f.write(f'[pybc.preferred_units]\ndistance = "{units[(lvl, kind)]}"\n')
            os.chdir(dirs[1])
            core.reset_world()
            m.PreferredUnits.distance = U.Line
            a = c["args"]
            explicit = os.path.join(dirs[1], "explicit.toml")
            with open(explicit, "w") as f:
                f.write('[pybc.preferred_units]\ndistance = "NauticalMile"\n')
            kw = {}
            if a["prefs"]:
                kw["preferred_units"] = {"distance": U.Millimeter}
            if a["step"]:
                kw["max_calc_step_size"] = U.Foot(2)
            o = impl.outcome(m.basicConfig, explicit if a["file"] else None, suppress_warnings=True, **kw)
            got = m.PreferredUnits.distance.name
            k = {"module": "ConfigLoad", "outcome": c["outcome"]}
            chk.count(1, ("cfgload", ci))
            chk.stratum("cfgload_" + c["outcome"])
            if c["outcome"] == "ValueError":
                if not (o[0] == "exc" and isinstance(o[2], ValueError)) or got != "Line":
                    chk.violation("X.ConfigLoad.ConflictingArgumentsAccepted", k, {"case": c, "got": got})
            elif c["outcome"] == "explicit-file":
                if got != "NauticalMile":
                    chk.violation("X.ConfigLoad.ExplicitFileNotLoaded", k, {"case": c, "got": got})
            elif c["outcome"] == "arguments-applied":
                want = "Millimeter" if a["prefs"] else "Line"
                gs = m.get_global_max_calc_step_size() >> U.Foot
                if got != want or (a["step"] and abs(gs - 2.0) > 1e-12) or (not a["step"] and abs(gs - 0.5) > 1e-12):
                    chk.violation("X.ConfigLoad.ArgumentsNotApplied", k, {"case": c, "got": got, "gstep": gs})
            else:
                want = units[tuple(c["loaded"])]
                if got != want:
                    chk.violation("X.ConfigLoad.WrongFileLoaded", k, {"case": c, "got": got, "want": want})
            os.chdir(cwd0)
        chk.traces += len(gen.out("CASE"))
    finally:
        os.chdir(cwd0)
        import shutil
        shutil.rmtree(base, ignore_errors=True)
        core.reset_world()


def vectors(chk, thorough):
    m = impl.pb()
    cfg, defs = core.consts(dict(Coords="{-2, 0, 1, 3}" if not thorough else "{-3, -1, 0, 2, 4}"))
    chk.tlc(core.run_tlc("VectorAlg", cfg + "SPECIFICATION Spec\nINVARIANT V_AddCommutes\nINVARIANT V_SubIsAddNeg\nINVARIANT V_DotSymmetric\n"
                         "INVARIANT V_ScaleDistributes\nINVARIANT V_NormOfScale\n", defs=defs), "VectorAlg")
    gen = core.run_tlc("Gen_VectorAlg", cfg + "INIT Init\nNEXT Next\nINVARIANT Emit\n", defs=defs, workers=1, tags=["CASE"])
    chk.tlc(gen, "Gen_VectorAlg")
    V = m.Vector
    for c in gen.out("CASE"):
        a, b, k = V(*map(float, c["a"])), V(*map(float, c["b"])), float(c["k"])
        t = lambda v: [float(x) for x in v]
        res = {"add": (t(a + b), t(c["add"])), "add2": (t(a.add(b)), t(c["add"])), "sub": (t(a - b), t(c["sub"])),
               "neg": (t(-a), t(c["neg"])), "scale": (t(a * k), t(c["scale"])), "rscale": (t(k * a), t(c["scale"])),
               "mul_by_const": (t(a.mul_by_const(k)), t(c["scale"])), "dot": ([a * b], [float(c["dot"])]),
               "mul_by_vector": ([a.mul_by_vector(b)], [float(c["dot"])]), "magnitude": ([a.magnitude()], [math.sqrt(c["norm2"])])}
        n = a.normalize()
        chk.count(1, ("vec", tuple(c["a"]), tuple(c["b"]), c["k"]))
        chk.stratum("vectors")
        for name, (got, want) in res.items():
            if got != want:
                chk.violation("X.Vector." + name, {"module": "VectorAlg"}, {"case": c, "got": got, "want": want})
        if c["norm2"] > 0 and abs(n.magnitude() - 1.0) > 1e-12:
            chk.violation("X.Vector.normalize", {"module": "VectorAlg"}, {"case": c})
        if c["norm2"] == 0 and t(n) != [0.0, 0.0, 0.0]:
            chk.violation("X.Vector.normalize", {"module": "VectorAlg"}, {"case": c})
    chk.traces += len(gen.out("CASE"))


def output(chk, thorough):
    """Output.tla: every column of a trajectory row is shown in the unit its slot holds at the time of the call"""
    from pbv import units as UA
    from pbv.props import c07
    m = impl.pb()
    U = m.Unit
    cfg, defs = core.consts(dict(MaxOps=2, Candidates=c07.CAND))
    chk.tlc(core.run_tlc("Output", cfg + "SPECIFICATION Spec\nINVARIANT O_ColumnsTyped\nINVARIANT O_ShownUnitDisplayable\n"
                         "PROPERTY O_FollowsSlot\nINVARIANT O_TableIsFunction\nINVARIANT O_TableSize\n", defs=defs), "Output")
    cfg, defs = core.consts(dict(MaxOps=4, Candidates=c07.CAND))
    gen = core.run_tlc("Gen_Output", cfg + "SPECIFICATION GenSpec\nINVARIANT Emit\n", defs=defs, workers=1,
                       tags=["BEH", "COLUMNS", "DISPLAY", "PLAIN"], simulate=f"num={30 if thorough else 5}", depth=5, seed=chk.seed + 3)
    cols, disp, plain = gen.out("COLUMNS")[0], gen.out("DISPLAY")[0], gen.out("PLAIN")[0]
    disp = {d[0]: (d[1], "".join(chr(c) for c in d[2])) for d in disp}
    behs = gen.out("BEH")
    rng = random.Random(chk.seed + 3)
    rng.shuffle(behs)
    behs.sort(key=lambda b: -sum(1 for e in b if e["op"]["a"] != "Assign"))
    n = 300 if thorough else 40
    behs = behs[: n // 2] + behs[len(behs) // 2: len(behs) // 2 + n // 2]
    # the display table covers exactly the units of the library
    if {u.name for u in m.Unit} != set(disp):
        chk.violation("X.Output.DisplayTableUnits", {"module": "Output"}, {"missing": sorted({u.name for u in m.Unit} ^ set(disp))})
    for name, (digits, sym) in disp.items():
        u = UA.unit_enum(name)
        chk.count(1, ("disp", name))
        if (u.accuracy, u.symbol) != (digits, sym):
            chk.violation("X.Output.DisplayEntry", {"module": "Output", "unit": name}, {"got": [u.accuracy, u.symbol], "want": [digits, sym]})
    # rows: one computed, two synthetic (negative and zero values, a large flag)
    core.reset_world()
    calc = m.Calculator(_config={"max_calc_step_size_feet": 2.0})
    hr = calc.fire(impl.simple_shot(), U.Yard(300), U.Yard(100), extra_data=True)
    rows = [hr.trajectory[0], hr.trajectory[-1],
            m.TrajectoryData(time=0.123456, distance=U.Meter(-12.345), velocity=U.MPS(0.0), mach=0.0, height=U.Centimeter(-3.21),
                          target_drop=U.Inch(0.049), drop_adj=U.Mil(-0.00049), windage=U.Foot(1e-7), windage_adj=U.MOA(359.9996),
                          look_distance=U.Yard(1e6), angle=U.Degree(-45.00005), density_factor=-0.0123456, drag=0.0004999,
                          energy=U.Joule(0.5), ogw=U.Kilogram(2.5), flag=11)]

    def fmt_plain(col, v):
        f = plain[col]
        return m.TrajFlag.name(v) if f == "name" else f % v

    for bi, b in enumerate(behs):
        core.reset_world()
        for step, e in enumerate(b):
            c07.apply_op(m, e["op"], bi + step)
            chk.stratum("output_" + e["op"]["a"])
            row = rows[(bi + step) % len(rows)]
            o1, o2 = impl.outcome(row.in_def_units), impl.outcome(row.formatted)
            k = {"module": "Output", "op": e["op"]["a"]}
            det = {"history": [x["op"] for x in b], "step": step}
            chk.count(1, ("output", bi, step))
            if o1[0] != "ok" or o2[0] != "ok" or len(o1[1]) != len(cols) or len(o2[1]) != len(cols):
                chk.violation("X.Output.Raised", k, {**det, "got": [o1[1] if o1[0] != "ok" else "ok", o2[1] if o2[0] != "ok" else "ok"]})
                continue
            for i, (col, dim, slot) in enumerate(cols):
                v = getattr(row, col)
                if dim == "":
                    want_n, want_s = v, fmt_plain(col, v)
                else:
                    un = UA.unit_enum(e["shown"][i])
                    want_n = v >> un
                    digits, sym = disp[e["shown"][i]]
                    want_s = f"{want_n:.{digits}f} {sym}"
                if o1[1][i] != want_n:
                    chk.violation("X.Output.ColumnNumber", {**k, "column": col}, {**det, "shown_in": e["shown"][i], "got": repr(o1[1][i]), "want": repr(want_n)})
                if o2[1][i] != want_s:
                    chk.violation("X.Output.ColumnText", {**k, "column": col}, {**det, "shown_in": e["shown"][i], "got": o2[1][i], "want": want_s})
            if (bi + step) % 4 == 0 and _HAVE_PANDAS:
                # the table forms of a whole result: one line per row, one column per field (in the rows' field order), the cells
                # those of in_def_units() / formatted() under the preferences in force NOW; iteration and indexing give the rows
                hr2 = m.HitResult(impl.simple_shot(), list(rows), True)
                chk.stratum("output_result_as_table")
                o3, o4 = impl.outcome(hr2.dataframe, False), impl.outcome(hr2.dataframe, True)
                if o3[0] != "ok" or o4[0] != "ok":
                    chk.violation("X.Output.TableRaised", k, {**det, "got": [o3[1] if o3[0] != "ok" else "ok", o4[1] if o4[0] != "ok" else "ok"]})
                else:
                    names = list(m.TrajectoryData._fields)
                    num = [list(r_) for r_ in o3[1].values.tolist()]
                    txt = [list(r_) for r_ in o4[1].values.tolist()]
                    if list(o3[1].columns) != names or list(o4[1].columns) != names or \
                            num != [list(r_.in_def_units()) for r_ in rows] or txt != [list(r_.formatted()) for r_ in rows]:
                        chk.violation("X.Output.TableDiffersFromRows", k, {**det, "columns": list(o3[1].columns)})
                if [r_ for r_ in hr2] != list(rows) or any(hr2[i_] is not rows[i_] for i_ in range(len(rows))):
                    chk.violation("X.Output.IterationOrIndexing", k, det)
            # a quantity's own text: its display unit, the unit's digits and symbol - no preference involved
            for col, dim, slot in cols[1:3] + cols[6:7]:
                q = getattr(row, col)
                for uname in UA.dims()[dim][: (None if thorough else 3)]:
                    un = UA.unit_enum(uname)
                    digits, sym = disp[uname]
                    want = f"{round(q >> un, digits)}{sym}"
                    got = impl.outcome(lambda: str(un(q)))
                    if got[0] != "ok" or got[1] != want:
                        chk.violation("X.Output.QuantityText", {**k, "unit": uname}, {**det, "got": got[1], "want": want})
        chk.traces += 1
    core.reset_world()
    chk.stratum("output")


def validation(chk, thorough):
    """Validation.tla: constructor acceptance rules, in order; every class combination enumerated by TLC"""
    m = impl.pb()
    U = m.Unit
    chk.tlc(core.run_tlc("Validation", "SPECIFICATION Spec\nINVARIANT V_RejectedBuildsNothing\nINVARIANT V_AcceptedIffNoRuleViolated\n"
                         "INVARIANT V_ErrorIsAViolatedRule\nINVARIANT V_NoNonPositiveBC\n"), "Validation")
    gen = core.run_tlc("Gen_Validation", "SPECIFICATION Spec\nINVARIANT Emit\n", workers=1, tags=["CASE"])
    cases = gen.out("CASE")
    chk.tlc(gen, "Gen_Validation")
    P = m.DragDataPoint
    tables = {"empty": lambda: [], "points": lambda: [P(0.0, 0.3), P(1.0, 0.4), P(2.0, 0.3)],
              "dicts": lambda: [{"Mach": 0.0, "CD": 0.3}, {"Mach": 1.0, "CD": 0.4}, {"Mach": 2.0, "CD": 0.3}],
              "mixed": lambda: [P(0.0, 0.3), {"Mach": 1.0, "CD": 0.4}, P(2.0, 0.3)],
              "dict_without_CD": lambda: [{"Mach": 0.0, "CD": 0.3}, {"Mach": 1.0}, {"Mach": 2.0, "CD": 0.3}],
              "item_not_a_point": lambda: [P(0.0, 0.3), 7, P(2.0, 0.3)]}
    sign = {"neg": [-0.3, -1], "zero": [0.0, 0], "pos": [0.3, 1]}
    clicks = {"absent": [None], "text": ["0.1", "mil"], "nonpositive": [0.0, U.Mil(0), U.MOA(-0.25), -1],
              "number": [0.1, 2], "angle": [U.Mil(0.1), U.MOA(0.25), U.CmPer100m(1)]}
    for ci, c in enumerate(cases):
        a, want = c["args"], c["outcome"]
        variants = []
        if a["c"] == "BCPoint":
            for bc in sign[a["bc"]]:
                for mach in ([None] if a["mach"] == "absent" else [0.8, 2]):
                    for v in ([None] if a["v"] == "absent" else [U.FPS(2000), 600.0, U.MPS(700)]):
                        variants.append((lambda bc=bc, mach=mach, v=v: m.BCPoint(bc, mach, v), (bc, mach, repr(v))))
        elif a["c"] == "DragModel":
            for bc in sign[a["bc"]]:
                for w, d in (((0, 0),) if (a["w"], a["d"]) == ("zero", "zero") else
                             [(U.Grain(168) if a["w"] == "pos" else 0, U.Inch(0.308) if a["d"] == "pos" else 0),
                              (168 if a["w"] == "pos" else U.Grain(0), 0.308 if a["d"] == "pos" else U.Inch(0))]):
                    variants.append((lambda bc=bc, w=w, d=d: m.DragModel(bc, tables[a["table"]](), w, d), (bc, a["table"], repr(w), repr(d))))
        elif a["c"] == "Sight":
            planes = {"FFP": ["FFP"], "SFP": ["SFP"], "LWIR": ["LWIR"], "other": ["ffp", "", None, "MOA"]}[a["plane"]]
            for pl in planes:
                for sc in ([None] if a["scale"] == "absent" else [U.Meter(100), 100]):
                    for h in clicks[a["h"]][:2]:
                        for v in clicks[a["v"]][-2:]:
                            variants.append((lambda pl=pl, sc=sc, h=h, v=v: m.Sight(pl, sc, h, v), (pl, repr(sc), repr(h), repr(v))))
        else:
            w, d = (U.Grain(168) if a["w"] == "pos" else 0), (U.Inch(0.308) if a["d"] == "pos" else 0)
            variants.append((lambda: m.DragModelMultiBC([m.BCPoint(0.3, 2.0), m.BCPoint(0.28, 1.0)], tables[a["table"]](), w, d), (a["table"], repr(w), repr(d))))
        for fn, what in variants:
            core.reset_world()
            o = impl.outcome(fn)
            got = "ok" if o[0] == "ok" else o[1]
            chk.count(1, ("validation", ci, what))
            chk.stratum("validation_" + a["c"])
            chk.stratum("validation_rejected" if want != "ok" else "validation_accepted")
            k = {"module": "Validation", "constructor": a["c"], "want": want}
            if got != want:
                chk.violation("X.Validation.Outcome", k, {"case": c, "arguments": what, "got": got, "text": str(o[2])[:120] if o[0] == "exc" else ""})
                continue
            if want != "ok":
                continue
            obj, dv = o[1], c["derived"]
            if a["c"] == "BCPoint":
                wantm = what[1] if dv["mach_from"] == "mach" else None
                if wantm is not None and obj.Mach != wantm:
                    chk.violation("X.Validation.Derived", k, {"case": c, "arguments": what, "got": obj.Mach})
                if dv["mach_from"] == "velocity" and not (0.3 < obj.Mach < 3.0):
                    chk.violation("X.Validation.Derived", k, {"case": c, "arguments": what, "got": obj.Mach})
            elif a["c"] == "DragModel":
                if hasattr(obj, "form_factor") != dv["has_form_factor"] or hasattr(obj, "sectional_density") != dv["has_form_factor"]:
                    chk.violation("X.Validation.Derived", k, {"case": c, "arguments": what})
                if not all(isinstance(p_, P) for p_ in obj.drag_table) or len(obj.drag_table) != 3:
                    chk.violation("X.Validation.Derived", k, {"case": c, "arguments": what, "table": repr(obj.drag_table)[:200]})
            elif a["c"] == "Sight":
                if dv["scale_default"] and obj.scale_factor.raw_value <= 0:
                    chk.violation("X.Validation.Derived", k, {"case": c, "arguments": what})
            else:
                sd = 168.0 / 0.308 ** 2 / 7000.0
                if abs(obj.BC - (sd if dv["bc_is_sectional_density"] else 1.0)) > 1e-12:
                    chk.violation("X.Validation.Derived", k, {"case": c, "arguments": what, "got": obj.BC})
    chk.traces += len(cases)
    core.reset_world()


def derived(chk, thorough):
    """Derived.tla: the discrete / rational part of the derived row columns (C05 itself is not applicable): spin-drift case
    split, rational columns on a level sight line, adjustments at the muzzle.  Bound to create_trajectory_row, to
    TrajectoryCalc.spin_drift / calc_stability_coefficient after _init_trajectory, and to whole fire() calls."""
    from fractions import Fraction as F
    m = impl.pb()
    U = m.Unit
    from py_ballisticcalc.trajectory_calc import _trajectory_calc as T
    d = dict(Twists="{-2, -1, 0, 1, 2}" if thorough else "{-2, 0, 1}", Weights="{2, 100}", Coords="{-1, 0, 1, 2}" if thorough else "{-1, 0, 2}",
             Speeds="{1, 2}", Times="{0, 1}")
    cfg, defs = core.consts(d)
    chk.tlc(core.run_tlc("Derived", cfg + "SPECIFICATION Spec\nINVARIANT D_DriftIffAllGiven\nINVARIANT D_DriftSignedByTwist\n"
                         "INVARIANT D_LeftMirrorsRight\nINVARIANT D_NoDriftAtMuzzleTime\nINVARIANT D_MuzzleAdjustmentsZero\n"
                         "INVARIANT D_WindageIsLateralPlusDrift\nINVARIANT D_EnergyMonotone\n", defs=defs), "Derived")
    gen = core.run_tlc("Gen_Derived", cfg + "INIT Init\nNEXT Next\nINVARIANT Emit\n", defs=defs, workers=1, tags=["CASE"])
    chk.tlc(gen, "Gen_Derived")
    cases = gen.out("CASE")
    calcs = {}

    def solver(tw, hl, hd, w):
        key = (tw, hl, hd, w)
        if key not in calcs:
            core.reset_world()
            def build():
                dm = m.DragModel(0.3, m.TableG7, U.Grain(w), U.Inch(1) if hd else 0, U.Inch(1) if hl else 0)
                shot = m.Shot(weapon=m.Weapon(U.Inch(0), twist=U.Inch(tw)), ammo=m.Ammo(dm, U.FPS(2800)),
                              atmo=m.Atmo(U.Foot(0), U.InHg(29.92), U.Fahrenheit(59), 0.0))
                c = m.Calculator()
                c._calc._init_trajectory(shot)
                return c._calc
            o_ = impl.outcome(build)
            if o_[0] != "ok":
                chk.violation("X.Derived.LegalBulletRejected", {"module": "Derived", "tw": tw, "hasLen": hl, "hasDia": hd}, {"weight_gr": w, "exc": o_[1], "text": str(o_[2])[:120]})
            calcs[key] = o_[1] if o_[0] == "ok" else None
        return calcs[key]

    def near(a, b, rel=1e-9):
        return abs(a - b) <= rel * max(abs(a), abs(b)) + 1e-15

    for c in cases:
        want = c["want"]
        tc = solver(c["tw"], c["hasLen"], c["hasDia"], c["w"])
        if tc is None:
            continue
        k = {"module": "Derived", "tw": c["tw"], "hasLen": c["hasLen"], "hasDia": c["hasDia"]}
        chk.count(1, ("derived", c["tw"], c["hasLen"], c["hasDia"], c["w"], c["x"], c["y"], c["z"], c["v"], c["snd"], c["t"], c["lookNonZero"]))
        chk.stratum("derived_stable" if want["stable"] else "derived_no_drift")
        sg = F(want["sg"][0], want["sg"][1])
        if not near(tc.stability_coefficient, float(sg)):
            chk.violation("X.Derived.Stability", k, {"case": c, "got": tc.stability_coefficient, "want": float(sg)})
        drift = F(want["drift"][0], want["drift"][1])
        got_drift = tc.spin_drift(float(c["t"]))
        if not near(got_drift, float(drift)) or (drift == 0 and got_drift != 0):
            chk.violation("X.Derived.SpinDrift", k, {"case": c, "got": got_drift, "want": float(drift)})
        look = 0.25 if c["lookNonZero"] else 0.0
        row = T.create_trajectory_row(float(c["t"]), m.Vector(float(c["x"]), float(c["y"]), float(c["z"])), m.Vector(float(c["v"]), 0.0, 0.0),
                                      float(c["v"]), float(c["snd"]), got_drift, look, 1.0, 0.0, float(c["w"]), 8)
        ft = lambda q_: q_ >> U.Foot
        wind = F(want["windage"][0], want["windage"][1])
        checks = [("distance", ft(row.distance), float(want["distance"])), ("height", ft(row.height), float(want["height"])),
                  ("windage", ft(row.windage), float(wind)), ("mach", row.mach, c["v"] / c["snd"]),
                  ("energy", row.energy >> U.FootPound, float(F(want["energy"][0], want["energy"][1]))),
                  ("ogw", row.ogw >> U.Pound, float(F(want["ogw"]["n"], want["ogw"]["d"] * 10 ** want["ogw"]["e10"]))),
                  ("angle", row.angle >> U.Radian, 0.0)]
        if not c["lookNonZero"]:
            chk.stratum("derived_level")
            checks += [("target_drop", ft(row.target_drop), float(want["targetDrop"])), ("look_distance", ft(row.look_distance), float(want["lookDistance"]))]
        for name, got, w_ in checks:
            if not near(got, w_):
                chk.violation("X.Derived.Column." + name, k, {"case": c, "got": got, "want": w_})
        da, wa = row.drop_adj >> U.Radian, row.windage_adj >> U.Radian
        dj, wj = want["dropAdj"], want["windAdj"]
        if dj["zero"]:
            chk.stratum("derived_muzzle")
            if da != 0 or wa != 0:
                chk.violation("X.Derived.MuzzleAdjustmentNotZero", k, {"case": c, "drop_adj": da, "windage_adj": wa})
        else:
            if dj["minusLook"] and da != -look:
                chk.violation("X.Derived.DropAdjOnHorizontal", k, {"case": c, "got": da, "want": -look})
            if not c["lookNonZero"]:
                sgn = {"zero": 0, "pos": 1, "neg": -1}[dj["cls"]]
                if (da > 0) - (da < 0) != sgn or (dj["quarter"] and not near(abs(da), math.pi / 4, 1e-15)):
                    chk.violation("X.Derived.DropAdjClass", k, {"case": c, "got": da})
            sgn = {"zero": 0, "pos": 1, "neg": -1}[wj["cls"]]
            if (wa > 0) - (wa < 0) != sgn or (wj["quarter"] and not near(abs(wa), math.pi / 4, 1e-12)) or (wj["zero"] and wa != 0):
                chk.violation("X.Derived.WindageAdjClass", k, {"case": c, "got": wa})
    chk.traces += len(cases)
    # whole fire() calls: the same split observed at the API (no wind, so windage is the spin drift alone)
    core.reset_world()
    res = {}
    for tw in (12, -12, 0):
        for hl, hd in ((True, True), (False, True), (True, False)):
            o_ = impl.outcome(m.DragModel, 0.223, m.TableG7, U.Grain(168), U.Inch(0.308) if hd else 0, U.Inch(1.282) if hl else 0)
            if o_[0] != "ok":
                chk.violation("X.Derived.LegalBulletRejected", {"module": "Derived", "tw": tw, "hasLen": hl, "hasDia": hd, "fire": True}, {"exc": o_[1], "text": str(o_[2])[:120]})
                continue
            dm = o_[1]
            for look in (0.0, 5.0):
                shot = m.Shot(weapon=m.Weapon(U.Inch(2), twist=U.Inch(tw)), ammo=m.Ammo(dm, U.FPS(2750)), look_angle=U.Degree(look))
                rows = m.Calculator().fire(shot, U.Yard(300), U.Yard(100)).trajectory
                res[(tw, hl, hd, look)] = [r.windage.raw_value for r in rows]
                stable = tw != 0 and hl and hd
                k = {"module": "Derived", "tw": tw, "hasLen": hl, "hasDia": hd, "fire": True}
                chk.count(1, ("derived_fire", tw, hl, hd, look))
                chk.stratum("derived_fire_stable" if stable else "derived_fire_no_drift")
                r0 = rows[0]
                if (r0.drop_adj >> U.Radian) != 0 or (r0.windage_adj >> U.Radian) != 0 or r0.windage.raw_value != 0:
                    chk.violation("X.Derived.MuzzleAdjustmentNotZero", k, {"look_deg": look, "drop_adj": r0.drop_adj >> U.Radian, "windage_adj": r0.windage_adj >> U.Radian})
                for r in rows[1:]:
                    wv, wadj = r.windage.raw_value, r.windage_adj >> U.Radian
                    sgn = (1 if tw > 0 else -1) if stable else 0
                    if (wv > 0) - (wv < 0) != sgn or (wadj > 0) - (wadj < 0) != sgn:
                        chk.violation("X.Derived.FireDriftSign", k, {"look_deg": look, "distance_ft": r.distance >> U.Foot, "windage_in": wv, "windage_adj": wadj})
                        break
    for (tw, hl, hd, look), w_ in res.items():
        if tw > 0 and (-tw, hl, hd, look) in res and [-x_ for x_ in res[(-tw, hl, hd, look)]] != w_:
            chk.violation("X.Derived.LeftTwistNotMirror", {"module": "Derived", "tw": tw, "hasLen": hl, "hasDia": hd, "fire": True}, {"look_deg": look, "right": w_, "left": res[(-tw, hl, hd, look)]})
    core.reset_world()


def service(chk, thorough):
    """Service.tla: logger handlers / DEBUG switch / Calculator.cdm after any history; computations independent of all of it"""
    import importlib
    import logging
    m = impl.pb()
    U = m.Unit
    L = importlib.import_module("py_ballisticcalc.logger")
    d = dict(Files='{"f1", "f2"}', Calcs='{"c1", "c2"}', Tables='{"t1", "t2"}', MaxOps=3)
    cfg, defs = core.consts(d)
    chk.tlc(core.run_tlc("Service", cfg + "SPECIFICATION Spec\nINVARIANT S_AtMostOneFileHandler\nINVARIANT S_AttachedIsConsolePlusFile\n"
                         "INVARIANT S_NoOpenHandlerLeft\nINVARIANT S_LevelFollowsDebug\nPROPERTY S_ComputeTouchesNoService\n"
                         "PROPERTY S_ServiceTouchesNoCdm\n", defs=defs, coverage=True), "Service")
    cfg, defs = core.consts(dict(d, MaxOps=5))
    gen = core.run_tlc("Gen_Service", cfg + "SPECIFICATION GenSpec\nINVARIANT Emit\n", defs=defs, workers=1, tags=["BEH"],
                       simulate=f"num={40 if thorough else 8}", depth=6, seed=chk.seed + 3)
    behs = gen.out("BEH")
    random.Random(chk.seed).shuffle(behs)
    behs = behs[: (600 if thorough else 80)]
    sdir = core.scratch()
    models = {"t1": lambda: m.DragModel(0.3, m.TableG7), "t2": lambda: m.DragModel(0.45, [dict(p_) for p_ in m.TableG1 if p_["Mach"] <= 3.0])}
    cfgs = {"c1": {"max_calc_step_size_feet": 1.0}, "c2": {"max_calc_step_size_feet": 1.0, "cMaximumDrop": -0.01}}   # c2's fire raises

    def compute(calc, shot):
        try:
            return ("ok", tuple(float(r.height.raw_value).hex() for r in calc.fire(shot, U.Foot(24), U.Foot(8)).trajectory))
        except m.RangeError as x:
            return ("RangeError", x.reason, tuple(float(r.height.raw_value).hex() for r in x.incomplete_trajectory))

    def mkshot(t):
        return m.Shot(weapon=m.Weapon(U.Inch(2)), ammo=m.Ammo(models[t](), U.FPS(2600)))
    L.disable_file_logging()
    L.set_debug(False)
    ref = {(c, t): compute(m.Calculator(_config=dict(cfgs[c])), mkshot(t)) for c in cfgs for t in models}
    if ref[("c2", "t1")][0] != "RangeError" or ref[("c1", "t1")][0] != "ok":
        raise core.MachineryError("Service: scenario outcomes not as built")
    for b in behs:
        L.disable_file_logging()
        L.set_debug(False)
        calcs = {c: m.Calculator(_config=dict(cfgs[c])) for c in cfgs}
        shots_used = {}
        seen = {}      # file -> handler objects created for it
        for step, e in enumerate(b):
            op = e["op"]
            k = {"module": "Service", "op": op["a"]}
            det = {"behaviour": b, "step": step}
            chk.count(1, ("service", step, op["a"], str(op["arg"]), e["fh"], e["debug"]))
            chk.stratum("service_" + op["a"])
            if op["a"] == "EnableFile":
                L.enable_file_logging(str(sdir / (op["arg"] + ".log")))
                seen.setdefault(op["arg"], []).append(L.file_handler)
            elif op["a"] == "DisableFile":
                L.disable_file_logging()
            elif op["a"] == "SetDebug":
                L.set_debug(op["arg"] == "on")
            else:
                c, t = op["arg"]
                sh = mkshot(t)
                shots_used[c] = sh
                got = compute(calcs[c], sh)
                if e["debug"] or e["fh"] != "none":
                    chk.stratum("service_compute_while_logging")
                if got != ref[(c, t)]:
                    chk.violation("X.Service.ResultDependsOnLoggingState", k, {**det, "got_kind": got[0], "debug": e["debug"], "file": e["fh"]})
            fhs = [h for h in L.logger.handlers if isinstance(h, logging.FileHandler)]
            others = [h for h in L.logger.handlers if not isinstance(h, logging.FileHandler)]
            names = sorted(os.path.basename(h.baseFilename)[:-4] for h in fhs)
            if names != sorted(x for x in e["attached"] if x != "console") or len(others) != 1:
                chk.violation("X.Service.HandlersAttached", k, {**det, "files": names, "other_handlers": len(others)})
            if (L.file_handler is None) != (e["fh"] == "none"):
                chk.violation("X.Service.FileHandlerState", k, det)
            for f in e["closed"]:
                for h in seen.get(f, []):
                    if h is not L.file_handler and h.stream is not None and not h.stream.closed:
                        chk.violation("X.Service.HandlerLeftOpen", k, {**det, "file": f})
            if L.get_debug() != e["debug"] or L.logger.level != (logging.DEBUG if e["level"] == "DEBUG" else logging.INFO):
                chk.violation("X.Service.LevelDoesNotFollowDebug", k, {**det, "debug": L.get_debug(), "level": L.logger.level})
            for c, want in e["cdm"].items():
                o = impl.outcome(lambda c=c: calcs[c].cdm)
                if want == "none":
                    chk.stratum("service_cdm_before_any_computation")
                    if o[0] == "ok" and o[1]:
                        chk.violation("X.Service.CdmBeforeAnyComputation", k, {**det, "calc": c, "got": repr(o[1])[:100]})
                elif o[0] != "ok" or o[1] is not shots_used[c].ammo.dm.drag_table:
                    chk.violation("X.Service.CdmIsNotTheLastTable", k, {**det, "calc": c, "want": want})
    L.disable_file_logging()
    L.set_debug(False)
    chk.traces += len(behs)


def run(chk: core.Check, replay=None) -> None:
    core.use_repo(hooks=False)
    core.reset_world()
    thorough = chk.tier == "thorough"
    atmo(chk, thorough)
    results(chk, thorough)
    config_load(chk, thorough)
    vectors(chk, thorough)
    output(chk, thorough)
    validation(chk, thorough)
    derived(chk, thorough)
    service(chk, thorough)
    chk.require_strata(["service_EnableFile", "service_DisableFile", "service_SetDebug", "service_Compute", "service_compute_while_logging", "service_cdm_before_any_computation", "derived_stable", "derived_no_drift", "derived_level", "derived_muzzle", "derived_fire_stable", "derived_fire_no_drift", "validation_BCPoint", "validation_DragModel", "validation_Sight", "validation_MultiBC", "validation_rejected", "validation_accepted", "output", "output_Assign", "output_LoadPreset", "atmo_SetHumidity", "atmo_Query", "atmo_rejected", "results_flag_names", "results_first_row_slower_than", "results_zeros", "results_no_extra",
                        "results_no_zero_rows", "cfgload_ValueError", "cfgload_searched", "cfgload_explicit-file",
                        "cfgload_arguments-applied", "vectors"])
    if _HAVE_PANDAS:
        chk.require_strata(["output_result_as_table"])
    chk.rule.append("extra specification modules beyond the listed properties (Atmo, Results, ConfigLoad, VectorAlg, Output, Validation, Derived, Service), each with TLC design "
                    "check and exhaustive / simulated replay into the real code")
    chk.sample({"modules": ["Atmo", "Results", "ConfigLoad", "VectorAlg", "Output", "Validation", "Derived", "Service"]})
