"""Scenario execution for the solver-loop properties (C03 C04 C11 C12 C15 C18): run a real
Calculator.fire with the hooks on, record the call, project it (integ.project_call) and hand back
trace lines plus what the API returned."""
from __future__ import annotations

import hashlib
import json
import math
import multiprocessing as mp
import os
import random
import struct
from typing import Any, Dict, List, Optional, Tuple

from pbv import core, integ, shots

DIST_UNITS = ["Foot", "Yard", "Meter", "Inch", "Kilometer", "Mile", "Centimeter"]

CLAUSE_OWNER = {"C03": "C03", "C04": "C04", "C11": "C11", "C12": "C12", "C15": "C15", "C18": "C18", "Trace": "machinery"}


_TIMEOUTS: List[int] = []
_CALCS: Dict[str, Any] = {}


def owner(clause: str) -> str:
    return CLAUSE_OWNER.get(clause.split(".")[0], "machinery")


def dist(value_ft: float, unit: str):
    """a Distance of value_ft feet expressed in `unit`"""
    import py_ballisticcalc as m
    U = getattr(m.Unit, unit)
    return U(m.Unit.Foot(value_ft) >> U)


def row_fp(row) -> Tuple:
    """bit-exact fingerprint of a TrajectoryData row"""
    out = []
    for v in row:
        if hasattr(v, "raw_value"):
            out.append(float(v.raw_value).hex())
        elif isinstance(v, float):
            out.append(v.hex())
        else:
            out.append(str(int(v)))
    return tuple(out)


def prehistory(m, calc):
    U = m.Unit
    dm = m.DragModel(0.21, m.TableG1, U.Grain(55), U.Inch(0.224), U.Inch(0.75))
    mk = lambda **kw: m.Shot(m.Weapon(U.Inch(2.6), U.Inch(8)), m.Ammo(dm, U.FPS(3000)), **kw)
    res = []
    for req in (lambda: calc.fire(mk(cant_angle=U.Degree(30)), U.Foot(40), U.Foot(10)),
                lambda: calc.set_weapon_zero(mk(), U.Yard(9000)),
                lambda: calc.barrel_elevation_for_target(mk(look_angle=U.Degree(-12)), U.Yard(7000)),
                lambda: calc.fire(mk(cant_angle=U.Degree(-20)), U.Foot(12), U.Inch(2)),   # a card finer than the integration step, canted
                lambda: calc.set_weapon_zero(mk(), U.Yard(10)),                      # zeros that succeed, much nearer than usual:
                lambda: calc.barrel_elevation_for_target(mk(), U.Meter(4))):         # the LAST thing the calculator did
        try:
            req()
            res.append("returned")
        except Exception as e:  # noqa
            res.append(type(e).__name__)
    return res


def run_fire(sc: Dict[str, Any], tid: int, keep_call: bool = False) -> Dict[str, Any]:
    """sc = {"shot": params, "cfg": {...}|None, "range_ft":, "step_ft": (None = default), "unit":, "extra":, "time_step":,
             "zero_yd": optional}"""
    import py_ballisticcalc as m
    core.reset_world()
    # the preference preset in force while the (explicit-unit) objects are built and the shot is fired: by default it
    # rotates with the shot's muzzle velocity, so that every check also runs under metric / mixed / imperial preferences
    preset = sc.get("prefs")
    if preset is None:
        preset = ["defaults", "metric", "mixed", "imperial"][int(sc["shot"].get("mv_fps", 0) * 10) % 4]
    {"defaults": m.PreferredUnits.defaults, "metric": m.loadMetricUnits, "mixed": m.loadMixedUnits,
     "imperial": m.loadImperialUnits}[preset]()
    shot = shots.build_shot(sc["shot"])
    # LONG-USED calculators: scenarios with the same settings share one calculator for the whole check run (canted after
    # upright after inclined shots, plain after extra-data requests, zeroing in between): every clause of every property is
    # thereby also checked on a calculator with a history - whatever a calculator keeps from one call must not reach the next
    ckey = json.dumps(sc.get("cfg"), sort_keys=True) + "|" + float(m.get_global_max_calc_step_size().raw_value).hex()
    if sc.get("fresh_calc") or tid % 3 == 0:
        calc = shots.build_calc(sc.get("cfg"))
    else:
        calc = _CALCS.get(ckey)
        if calc is None:
            calc = _CALCS[ckey] = shots.build_calc(sc.get("cfg"))
    out: Dict[str, Any] = {"tid": tid, "sc": sc, "prefs": preset, "calc_reused": calc is _CALCS.get(ckey)}
    if tid % 3 == 1 and not sc.get("no_prehistory"):
        # ... and a history that includes requests the calculator could not serve and shots of another kind: another rifle fired
        # canted, a zero far beyond reach (the search's first trial shot ends in a range error), an elevation for an unreachable
        # downhill target.  Nothing of it may reach the call under test.
        out["prehistory"] = prehistory(m, calc)
    if sc.get("zero_yd"):
        try:
            calc.set_weapon_zero(shot, m.Unit.Yard(sc["zero_yd"]))
        except Exception as e:  # noqa  (zeroing is C02's business)
            out["zero_exc"] = type(e).__name__
    rec = integ.Recorder().install()
    unit = sc.get("unit", "Foot")
    rng_q = dist(sc["range_ft"], unit) if not sc.get("bare") else None
    kwargs: Dict[str, Any] = {}
    if sc.get("step_ft") is not None:
        kwargs["trajectory_step"] = dist(sc["step_ft"], sc.get("step_unit", unit))
    if sc.get("request_in_unit"):
        # a card asked for in round numbers of a unit: [range, step, unit name] (range_ft / step_ft carry the same in feet)
        rq = sc["request_in_unit"]
        rng_q = getattr(m.Unit, rq[2])(rq[0])
        kwargs["trajectory_step"] = getattr(m.Unit, rq[2])(rq[1])
    if sc.get("extra"):
        kwargs["extra_data"] = True
    if sc.get("time_step"):
        kwargs["time_step"] = sc["time_step"]
    api: Dict[str, Any] = {"default_step": sc.get("step_ft") is None,
                           "range_ft_asked": (rng_q >> m.Unit.Foot) if rng_q is not None else None,
                           "step_ft_asked": (kwargs["trajectory_step"] >> m.Unit.Foot) if "trajectory_step" in kwargs else None,
                           "time_step_asked": float(kwargs.get("time_step", 0.0)), "extra_asked": bool(kwargs.get("extra_data", False))}
    try:
        # generous (machine may be loaded); once one call has hung, the following ones get 20 s so that a
        # non-terminating change does not cost 300 s per scenario
        with integ.Watchdog(sc.get("watchdog_s", 300) if not _TIMEOUTS else 20):
            hr = calc.fire(shot, rng_q, **kwargs)
        out["outcome"] = "ok"
        out["rows"] = hr.trajectory
        out["hr"] = hr
    except m.RangeError as e:
        out["outcome"] = "RangeError"
        out["rows"] = e.incomplete_trajectory
        out["reason"] = e.reason
        api["last_dist_ok"] = bool(e.incomplete_trajectory and e.last_distance is not None
                                   and e.last_distance.raw_value == e.incomplete_trajectory[-1].distance.raw_value)
        api["exc"] = e
    except TimeoutError:
        _TIMEOUTS.append(tid)
        out["outcome"] = "timeout"
        out["rows"] = []
    except Exception as e:  # noqa
        out["outcome"] = "exc:" + type(e).__name__
        out["rows"] = []
        out["exc_text"] = str(e)[:300]
    finally:
        rec.remove()
    if rec.calls:
        c = rec.calls[-1]
        if out["outcome"] == "RangeError" and c["raise"] is not None:
            api["row_is_last"] = bool(out["rows"] and out["rows"][-1] is c["raise"]["row"])
        lines, summ = integ.project_call(c, tid, api, cfg_expected=expected_config(sc.get("cfg")))
        out["lines"], out["summ"] = lines, summ
        if keep_call:
            out["call"] = c
        else:
            # keep what the paired (metamorphic) clauses need, drop the rest of the raw log
            out["iter_fp"] = [(it["pre_r"], it["pre_v"], it["pre_t"]) for it in c["iters"]]
    else:
        out["lines"], out["summ"] = [], {}
    out["shot_obj"], out["calc_obj"] = shot, calc
    return out


def expected_config(cfg: Optional[Dict[str, Any]]):
    """the Config the SPEC says a calculator built with `cfg` has: documented defaults overridden by cfg"""
    tc = integ.tcmod()
    d = dict(max_calc_step_size_feet=0.5, chart_resolution=0.2, cZeroFindingAccuracy=0.000005, cMinimumVelocity=50.0,
             cMaximumDrop=-15000, cMaxIterations=20, cGravityConstant=-32.17405, cMinimumAltitude=-1410.748)
    if cfg:
        d.update(cfg)
    return tc.Config(**d)


# ---------------------------------------------------------------------------------------------------
# scenario generators
# ---------------------------------------------------------------------------------------------------

def coarse_cfg(rng: random.Random, thorough: bool) -> Optional[Dict[str, Any]]:
    if thorough and rng.random() < 0.3:
        return None                       # default 0.5 ft step
    return {"max_calc_step_size_feet": rng.choice([1.0, 2.0, 3.0, 5.0])}


def gen_request(rng: random.Random, max_step: float, *, default_step_p=0.15, timed_p=0.15, extra_p=0.3) -> Dict[str, Any]:
    rng_ft = rng.choice([rng.uniform(5, 60), rng.uniform(60, 900), rng.uniform(900, 4500), rng.uniform(4500, 16000),
                         300.0, 1500.0, 3000.0])
    r: Dict[str, Any] = {"range_ft": rng_ft, "unit": rng.choice(DIST_UNITS), "extra": rng.random() < extra_p}
    if rng.random() < default_step_p:
        r["step_ft"] = None
    else:
        n = rng.choice([1, 2, 3, 4, 7, 10, 10, 13, 25])
        mode = rng.random()
        if mode < 0.45:
            step = rng_ft / n                                   # divides the range
        elif mode < 0.8:
            step = rng_ft / (n + rng.uniform(0.05, 0.95))       # does not divide
        elif mode < 0.9:
            step = max_step                                     # step = maximum integration step
        else:
            step = rng_ft * rng.uniform(0.5, 1.5)               # about as long as the range
        r["step_ft"] = max(step, max_step)
        r["step_unit"] = rng.choice(DIST_UNITS)
    if rng.random() < timed_p:
        r["time_step"] = rng.choice([0.01, 0.05, 0.2, 1.0])
    return r


def wind_list(rng: random.Random, kind: str) -> List[List[float]]:
    """[[fps, deg, until_ft], ...]"""
    if kind == "none":
        return []
    if kind == "tail":
        return [[rng.choice([15.0, 50.0, 73.3, 150.0]), rng.choice([0.0, 5.0, 350.0]), 1e8]]
    if kind == "head":
        return [[rng.choice([15.0, 50.0, 88.0]), rng.choice([180.0, 175.0]), 1e8]]
    if kind == "cross":
        return [[rng.choice([7.3, 30.0, 88.0]), rng.choice([90.0, 270.0, 45.0]), 1e8]]
    if kind == "lone":
        # ONE wind that ends inside the range: calm beyond it (the list has a single element, its end still counts)
        return [[rng.choice([20.0, 45.0, 80.0]), rng.choice([90.0, 0.0, 180.0, 250.0]), rng.choice([40.0, 150.0, 300.0, 0.0])]]
    n = rng.choice([2, 3, 4])
    out = []
    for _ in range(n):
        out.append([round(rng.choice([0.0, rng.uniform(1, 40), rng.uniform(40, 90)]), 2), round(rng.uniform(0, 360), 1),
                    round(rng.choice([rng.uniform(20, 400), rng.uniform(400, 3000), 0.0, 150.0, 150.0, 600.0]), 1)])
    rng.shuffle(out)
    return out


def run_batch(scs: List[Dict[str, Any]], workers: int = 1) -> List[Dict[str, Any]]:
    outs = []
    for i, sc in enumerate(scs):
        outs.append(run_fire(sc, sc.get("tid", i + 1)))
    return outs
