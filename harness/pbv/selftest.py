"""./check selftest [names...]  - anti-vacuity: every small mutant of /repo listed in selftest/mutants.json must be
rejected (exit 1) by the quick check of the property it targets.  Mutants are applied to a scratch COPY of /repo
under /var/tmp (never to /repo itself), checked with PYBC_REPO=<copy>, and the copy is deleted immediately.
Also: binding demonstration - corrupt one logged field / drop one event of a recorded trace => monitor rejects.
"""
from __future__ import annotations

import concurrent.futures as cf
import json
import os
import shutil
import subprocess
import sys
import tempfile
import time
from pathlib import Path

from pbv import core

MUTANTS = core.VERIF / "selftest" / "mutants.json"


def make_copy(tag: str) -> Path:
    base = Path("/var/tmp")
    d = Path(tempfile.mkdtemp(prefix=f"pbv_mut_{tag}_", dir=base))
    subprocess.run(["rsync", "-a", "--exclude", ".git", "--exclude", "__pycache__", "--exclude", "*.egg-info",
                    "--exclude", "docs", "--exclude", "examples", "--exclude", "*.ipynb",
                    str(core.REPO) + "/", str(d) + "/"], check=True)
    return d


def apply(d: Path, mut) -> None:
    for ed in mut["edits"]:
        f = d / ed["file"]
        s = f.read_text()
        if s.count(ed["old"]) != 1:
            raise core.MachineryError(f"mutant {mut['name']}: pattern occurs {s.count(ed['old'])} times in {ed['file']}")
        f.write_text(s.replace(ed["old"], ed["new"]))


def run_one(mut, tier="quick"):
    d = make_copy(mut["name"])
    t0 = time.time()
    try:
        apply(d, mut)
        res = {}
        for prop in mut["props"]:
            env = dict(os.environ, PYBC_REPO=str(d), PBV_EVIDENCE_DIR=str(d / "_evidence"), PBV_REPLAY_DIR=str(d / "_replays"))
            p = subprocess.run([str(core.VERIF / "check"), prop, "--tier", tier], env=env, capture_output=True, text=True,
                               cwd=str(core.VERIF))
            res[prop] = {"rc": p.returncode, "tail": (p.stdout + p.stderr)[-600:]}
        return mut["name"], res, time.time() - t0
    finally:
        shutil.rmtree(d, ignore_errors=True)


def binding_demo() -> int:
    """Corrupt one logged field / drop one event of a recorded, accepted trace: the monitor must reject each."""
    import copy
    from pbv import scen, shots, loopsuite
    core.use_repo()
    import random
    rng = random.Random(5)
    p = shots.gen_shot(rng, winds=0, look=0.0)
    p["winds"] = [[20.0, 90.0, 300.0], [30.0, 200.0, 1e8]]
    p["mv_fps"], p["alt_ft"] = 2600.0, 0.0
    sc = {"shot": p, "cfg": {"max_calc_step_size_feet": 2.0, "cMaximumDrop": -8.0}, "range_ft": 3000.0, "unit": "Foot", "step_ft": 300.0,
          "extra": True, "zero_yd": 100, "tid": 1}
    o = scen.run_fire(sc, 1)
    lines = o["lines"]
    chk = core.Check("SELFTEST", "quick", 0)
    base = core.validate_trace(chk, "Trace_Integrator", lines, "binding demo: accepted trace")
    if base:
        print("binding demo: the uncorrupted trace is rejected:", base)
        return 1
    iters = [i for i, l in enumerate(lines) if l["ev"] == "Iter"]
    with_row = [i for i in iters if lines[i]["nrows"] == 1 and lines[i]["k"] >= 1]
    flagged = [i for i in iters if set(lines[i]["fl"]) & {"U", "D"}]
    raises = [i for i, l in enumerate(lines) if l["ev"] == "Raise"]
    muts = []
    c = copy.deepcopy(lines); c[iters[len(iters) // 2]]["windIs"] = []; muts.append(("wind vector of one iteration", c, "C12.WrongSegment"))
    c = copy.deepcopy(lines); c[with_row[1]]["fl"] = []; muts.append(("flag of one range row", c, "C11.RowWithoutFlag"))
    c = copy.deepcopy(lines); c[with_row[1]]["k"] += 1; muts.append(("multiple of one range row", c, "C03.SkippedMultiple"))
    if flagged:
        c = copy.deepcopy(lines); c[flagged[0]]["fl"] = [f for f in c[flagged[0]]["fl"] if f not in ("U", "D")] or ["R"]
        muts.append(("event flag of the crossing row", c, "C15.Missing"))
    if raises:
        c = copy.deepcopy(lines); c[raises[0]]["reason"] = "Vel"; muts.append(("reason of the range error", c, "C04.Reason"))
    c = copy.deepcopy(lines); del c[with_row[2]]; muts.append(("one Iter event deleted", c, "C03.MissingRow|Trace.|C03."))
    bad = 0
    for what, corrupted, expect in muts:
        fails = core.validate_trace(chk, "Trace_Integrator", corrupted, "binding demo: " + what)
        got = sorted({cl for _, cl in fails})
        ok = any(any(g.startswith(e) for e in expect.split("|")) for g in got)
        print(f"{'REJECTED' if ok else 'ACCEPTED'} corrupted trace ({what}): {got}")
        bad += 0 if ok else 1
    return bad


def main(names=None) -> int:
    muts = json.loads(MUTANTS.read_text())["mutants"]
    names = names or sys.argv[2:]
    if names == ["binding"]:
        return 1 if binding_demo() else 0
    if names:
        muts = [m for m in muts if m["name"] in names or any(p in names for p in m["props"])]
    bad = 0
    rows = []
    with cf.ThreadPoolExecutor(max_workers=int(os.environ.get("PBV_SELFTEST_JOBS", "5"))) as ex:
        for name, res, wall in ex.map(run_one, muts):
            for prop, r in res.items():
                ok = r["rc"] == 1
                rows.append({"mutant": name, "property": prop, "detected": ok, "rc": r["rc"], "wall_s": round(wall, 1)})
                print(f"{'DETECTED' if ok else 'MISSED  '} {name:45s} by {prop} (rc={r['rc']}, {wall:.0f}s)")
                if not ok:
                    bad += 1
                    print("    " + r["tail"].replace("\n", "\n    ")[-500:])
    out = core.VERIF / "selftest" / "last_result.json"
    out.write_text(json.dumps({"results": rows}, indent=1))
    print(f"selftest: {len(rows) - bad}/{len(rows)} mutants detected")
    if not names:
        bad += binding_demo()
    return 0 if bad == 0 else 1
