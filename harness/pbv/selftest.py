"""./check selftest [names...]  - anti-vacuity: every small mutant of /repo listed in selftest/mutants.json must be
rejected (exit 1) by the quick check of the property it targets.  Mutants are applied to a scratch COPY of /repo
under /var/tmp (never to /repo itself), checked with PYBC_REPO=<copy>, and the copy is deleted immediately.
Also: binding demonstration - corrupt one logged field / drop one event of a recorded trace => monitor rejects.
"""
from __future__ import annotations

import concurrent.futures as cf
import json
import os
import shutil
import subprocess
import sys
import tempfile
import time
from pathlib import Path

from pbv import core

MUTANTS = core.VERIF / "selftest" / "mutants.json"


def make_copy(tag: str) -> Path:
    base = Path("/var/tmp")
    d = Path(tempfile.mkdtemp(prefix=f"pbv_mut_{tag}_", dir=base))
    subprocess.run(["rsync", "-a", "--exclude", ".git", "--exclude", "__pycache__", "--exclude", "*.egg-info",
                    "--exclude", "docs", "--exclude", "examples", "--exclude", "*.ipynb",
                    str(core.REPO) + "/", str(d) + "/"], check=True)
    return d


def apply(d: Path, mut) -> None:
    for ed in mut["edits"]:
        f = d / ed["file"]
        s = f.read_text()
        if s.count(ed["old"]) != 1:
            raise core.MachineryError(f"mutant {mut['name']}: pattern occurs {s.count(ed['old'])} times in {ed['file']}")
        f.write_text(s.replace(ed["old"], ed["new"]))


def run_one(mut, tier="quick"):
    d = make_copy(mut["name"])
    t0 = time.time()
    try:
        apply(d, mut)
        res = {}
        for prop in mut["props"]:
            env = dict(os.environ, PYBC_REPO=str(d), PBV_EVIDENCE_DIR=str(d / "_evidence"), PBV_REPLAY_DIR=str(d / "_replays"))
            p = subprocess.run([str(core.VERIF / "check"), prop, "--tier", tier], env=env, capture_output=True, text=True,
                               cwd=str(core.VERIF))
            res[prop] = {"rc": p.returncode, "tail": (p.stdout + p.stderr)[-600:]}
        return mut["name"], res, time.time() - t0
    finally:
        shutil.rmtree(d, ignore_errors=True)


def main(names=None) -> int:
    muts = json.loads(MUTANTS.read_text())["mutants"]
    names = names or sys.argv[2:]
    if names:
        muts = [m for m in muts if m["name"] in names or any(p in names for p in m["props"])]
    bad = 0
    rows = []
    with cf.ThreadPoolExecutor(max_workers=int(os.environ.get("PBV_SELFTEST_JOBS", "5"))) as ex:
        for name, res, wall in ex.map(run_one, muts):
            for prop, r in res.items():
                ok = r["rc"] == 1
                rows.append({"mutant": name, "property": prop, "detected": ok, "rc": r["rc"], "wall_s": round(wall, 1)})
                print(f"{'DETECTED' if ok else 'MISSED  '} {name:45s} by {prop} (rc={r['rc']}, {wall:.0f}s)")
                if not ok:
                    bad += 1
                    print("    " + r["tail"].replace("\n", "\n    ")[-500:])
    out = core.VERIF / "selftest" / "last_result.json"
    out.write_text(json.dumps({"results": rows}, indent=1))
    print(f"selftest: {len(rows) - bad}/{len(rows)} mutants detected")
    return 0 if bad == 0 else 1
