"""Seeded generators of real shots (JSON-serialisable parameter dicts) and builders.

Every quantity is built with an explicit unit so the PreferredUnits in force never matter.
"""
from __future__ import annotations

import math
import random
from typing import Any, Dict, List, Optional

TABLES = ["G1", "G7", "G2", "G5", "G6", "G8", "GI", "GS", "RA4"]


def pb():
    import py_ballisticcalc
    return py_ballisticcalc


def table(name: str):
    return getattr(pb(), "Table" + name)


def gen_shot(rng: random.Random, *, winds: Optional[int] = None, look: Optional[float] = None,
             cant: bool = False, slow: bool = False, spin: bool = True) -> Dict[str, Any]:
    """A random but physically sensible small-arms shot."""
    tname = rng.choice(["G1", "G7", "G7", "G1", "G2", "G5", "G6", "G8", "GI", "GS", "RA4"])
    bc = round(rng.uniform(0.12, 0.7), 3)
    mv = rng.choice([rng.uniform(600, 1100), rng.uniform(1100, 1300), rng.uniform(1300, 4000)]) if not slow \
        else rng.uniform(60, 600)
    p: Dict[str, Any] = {
        "table": tname, "bc": bc, "mv_fps": round(mv, 1),
        "sight_in": rng.choice([0.0, 1.5, 2.0, 2.5, 3.2, 6.0, -2.0, rng.uniform(-2, 6)]),
        "look_deg": look if look is not None else rng.choice([0.0, 0.0, 0.0, rng.uniform(-45, 45), rng.choice([-30, -10, -5, 5, 10, 30])]),
        "zero_rad": 0.0, "rel_rad": 0.0,
        "cant_deg": (rng.choice([0, 5, -10, 30, 90]) if cant else 0.0),
        "alt_ft": rng.choice([0.0, 0.0, 500.0, 5000.0, rng.uniform(-1000, 10000)]),
        "temp_f": rng.choice([59.0, 59.0, rng.uniform(-20, 110)]),
        "press_inhg": rng.choice([29.92, rng.uniform(20, 31)]),
        "humidity": rng.choice([0.0, 50.0, rng.uniform(0, 100)]),
        "winds": [],
    }
    if spin and rng.random() < 0.7:
        p.update({"weight_gr": rng.choice([55, 69, 140, 168, 175, 300]), "diameter_in": rng.choice([0.223, 0.264, 0.308, 0.338]),
                  "length_in": rng.choice([0.9, 1.2, 1.3, 1.7]), "twist_in": rng.choice([7, 8, 9, 10, 12, -9, -12])})
    n = winds if winds is not None else rng.choice([0, 0, 1, 1, 2, 3])
    for _ in range(n):
        p["winds"].append([round(rng.choice([0.0, rng.uniform(1, 30), rng.uniform(30, 90)]), 2),
                           round(rng.choice([0.0, 90.0, 180.0, 270.0, rng.uniform(0, 360)]), 2),
                           round(rng.choice([rng.uniform(30, 600), rng.uniform(600, 3000), 1e8]), 1)])
    return p


def build_model(p: Dict[str, Any]):
    m = pb()
    U = m.Unit
    if "weight_gr" in p:
        return m.DragModel(p["bc"], table(p["table"]), U.Grain(p["weight_gr"]), U.Inch(p["diameter_in"]), U.Inch(p["length_in"]))
    return m.DragModel(p["bc"], table(p["table"]))


def build_shot(p: Dict[str, Any]):
    m = pb()
    U = m.Unit
    dm = build_model(p)
    weapon = m.Weapon(U.Inch(p["sight_in"]), U.Inch(p.get("twist_in", 0.0)), U.Radian(p.get("zero_rad", 0.0)))
    if p.get("powder"):
        # powder sensitivity in play: baseline temperature and modifier given, switch on
        ammo = m.Ammo(dm, U.FPS(p["mv_fps"]), U.Celsius(p["powder"][0]), p["powder"][1], True)
    else:
        ammo = m.Ammo(dm, U.FPS(p["mv_fps"]))
    if p.get("vacuum"):
        atmo = m.Vacuum(U.Foot(p.get("alt_ft", 0.0)), U.Fahrenheit(p.get("temp_f", 59.0)))
    else:
        atmo = m.Atmo(U.Foot(p.get("alt_ft", 0.0)), U.InHg(p.get("press_inhg", 29.92)), U.Fahrenheit(p.get("temp_f", 59.0)),
                      p.get("humidity", 0.0))
    # until-distances are handed over in rotating units (the library must order them by distance, not by number)
    def until(i, ft):
        if p.get("wind_units", True) and (i % 4 == 3 or (ft == 0.0 and i % 2 == 0)):
            # a BARE number: that many of the preferred distance unit in force now (a segment ending at 0 is given as plain 0)
            bare = U.Foot(ft) >> m.PreferredUnits.distance
            # (a whole number is handed over as a Python int: a number means the same whatever numeric type carries it)
            return int(bare) if float(bare).is_integer() and abs(bare) < 1e15 else bare
        un = [U.Foot, U.Yard, U.Meter, U.Inch][i % 4] if p.get("wind_units", True) else U.Foot
        return un(U.Foot(ft) >> un)
    winds = []
    for i, w in enumerate(p.get("winds", [])):
        if (i + len(p["winds"])) % 2:
            # a Wind object that had another speed / direction / end first, was looked at (vector, until-distance), and was then
            # re-assigned in place: what counts is what it says when the shot is fired
            wo = m.Wind(U.FPS(w[0] + 7.0), U.Degree(w[1] + 33.0), U.Foot(w[2] * 0.5 + 10.0))
            _ = (wo.vector, wo.until_distance >> U.Foot)
            ud = until(i, w[2])
            if not hasattr(ud, "raw_value"):
                ud = m.PreferredUnits.distance(ud)       # (attributes hold quantities: a bare number is only read by the constructor)
            wo.velocity, wo.direction_from, wo.until_distance = U.FPS(w[0]), U.Degree(w[1]), ud
        elif i % 2 == 0 and 0.0 < w[2] < 1e7:
            # a wind that states its end AND carries a custom `max_distance_feet` (the end a wind gets when none is stated) that
            # is nearer than the stated end: the stated end is what counts
            wo = m.Wind(U.FPS(w[0]), U.Degree(w[1]), until(i, w[2]), max_distance_feet=max(1.0, w[2] * 0.5))
        else:
            wo = m.Wind(U.FPS(w[0]), U.Degree(w[1]), until(i, w[2]))
        winds.append(wo)
    # every other multi-segment list is assigned through the public setter instead of the constructor
    via_setter = p.get("winds_setter", len(winds) >= 2 and int(winds[0].velocity.raw_value * 1000) % 2 == 0)
    shot = m.Shot(weapon=weapon, ammo=ammo, look_angle=U.Degree(p.get("look_deg", 0.0)),
                  relative_angle=U.Radian(p.get("rel_rad", 0.0)), cant_angle=U.Degree(p.get("cant_deg", 0.0)),
                  atmo=atmo, winds=None if via_setter else (winds or None))
    if via_setter:
        shot.winds = winds
    return shot


_BUILT = [0]


def build_calc(cfg: Optional[Dict[str, Any]] = None):
    """every other calculator gets its whole-numbered settings as Python ints (-100 instead of -100.0): a setting means the
    same number whatever numeric type carries it"""
    m = pb()
    _BUILT[0] += 1
    if cfg and _BUILT[0] % 2:
        cfg = {k: (int(v) if isinstance(v, float) and v.is_integer() and abs(v) < 1e15 else v) for k, v in cfg.items()}
    return m.Calculator(_config=dict(cfg) if cfg else None)


def ulp(x: float) -> float:
    return math.ulp(x)
