"""Golden identity of the shipped drag tables (from spec/DragTablesGolden.tla via TLC) and digest helpers."""
from __future__ import annotations

import hashlib
import json
from typing import Any, Dict, List

from pbv import core

_golden: List[Dict[str, Any]] = []


def golden(gen_result=None) -> List[Dict[str, Any]]:
    global _golden
    if gen_result is not None and gen_result.out("GOLDEN"):
        _golden = gen_result.out("GOLDEN")[0]
    if not _golden:
        cfg, defs = core.consts(dict(MaxNodes=3, Gaps="{1}", NearRule='"nearest"'))
        r = core.run_tlc("Gen_DragLookup", cfg + "INIT Init\nNEXT GenNext\nINVARIANT Emit\n", defs=defs, workers=1,
                         tags=["GOLDEN"])
        _golden = r.out("GOLDEN")[0]
    return _golden


def digest(table) -> str:
    return hashlib.sha256(json.dumps([[float(p['Mach']).hex(), float(p['CD']).hex()] for p in table]).encode()).hexdigest()


def check_shipped() -> List[str]:
    """names of shipped tables that differ from the golden identity (digest, size, spot values, ascending from 0)"""
    import py_ballisticcalc as m
    bad = []
    for g in golden():
        t = getattr(m, "Table" + g["name"], None)
        if t is None:
            bad.append(g["name"] + ":missing")
            continue
        ok = (len(t) == g["n"] and digest(t) == g["sha256"] and t[0]["Mach"] == 0.0
              and all(a["Mach"] < b["Mach"] for a, b in zip(t, t[1:]))
              and round([p for p in t if p["Mach"] == 1.0][0]["CD"] * 10000) == g["cdAtMach1e4"]
              and round(t[-1]["Mach"] * 100) == g["lastMach100"])
        if not ok:
            bad.append(g["name"])
    return bad
