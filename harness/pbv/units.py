"""Exact unit arithmetic driven by the unit table exported from spec/UnitAlgebra.tla.

The harness holds NO unit definitions of its own: `table()` runs TLC on Gen_UnitAlgebra once per
process and everything here (to_si / from_si / convert) is computed from that export with
fractions.Fraction (pi as a 50-digit rational).
"""
from __future__ import annotations

import math
from fractions import Fraction
from functools import lru_cache
from typing import Any, Dict, List, Tuple

from pbv import core

PI = Fraction(31415926535897932384626433832795028841971693993751, 10 ** 49)

_cache: Dict[str, Any] = {}


def export() -> Dict[str, Any]:
    if not _cache:
        r = core.run_tlc("Gen_UnitAlgebra", "CONSTANTS MaxChain = 0\nINIT GInit\nNEXT GNext\nINVARIANT Emit\n",
                         workers=1, tags=["UNIT", "PAIR", "TRIPLE"])
        units = {u["name"]: u for u in r.out("UNIT")}
        if len(units) != 41 or len(r.out("PAIR")) != 287 or len(r.out("TRIPLE")) != 2267:
            raise core.MachineryError("Gen_UnitAlgebra export has unexpected size")
        _cache.update(units=units, pairs=r.out("PAIR"), triples=r.out("TRIPLE"), tlc=r)
    return _cache


def table() -> Dict[str, Dict[str, Any]]:
    return export()["units"]


def _prod(xs) -> int:
    p = 1
    for x in xs:
        p *= x
    return p


def scale(name: str) -> Fraction:
    """SI value of 1 unit (multiplicative part)."""
    u = table()[name]
    return Fraction(_prod(u["num"]), _prod(u["den"])) * (PI ** u["pi"])


def pair_factor(p: Dict[str, Any]) -> Fraction:
    n = _prod(f ** c for f, c in p["n"])
    d = _prod(f ** c for f, c in p["d"])
    return Fraction(n, d) * (PI ** p["pi"]) if p["pi"] >= 0 else Fraction(n, d) / (PI ** (-p["pi"]))


def to_si(name: str, x):
    """exact (Fraction) for lin/aff units; float for atan units"""
    u = table()[name]
    if u["kind"] == "lin":
        return Fraction(x) * scale(name)
    if u["kind"] == "aff":
        return (Fraction(x) + Fraction(u["off"], 100)) * scale(name)
    if u["kind"] == "atan":
        return math.atan(float(x) / _prod(u["den"]))
    raise core.MachineryError("unknown kind")


def from_si(name: str, si):
    u = table()[name]
    if u["kind"] == "lin":
        return si / scale(name) if isinstance(si, Fraction) else float(si) / float(scale(name))
    if u["kind"] == "aff":
        return Fraction(si) / scale(name) - Fraction(u["off"], 100)
    if u["kind"] == "atan":
        return math.tan(float(si)) * _prod(u["den"])
    raise core.MachineryError("unknown kind")


def convert(u: str, v: str, x):
    """exact expected value of x [u] expressed in v (Fraction when exact, float when atan is involved)"""
    if u == v:
        return Fraction(x) if table()[u]["kind"] != "atan" else float(x)
    return from_si(v, to_si(u, x))


def unit_enum(name: str):
    import py_ballisticcalc as m
    return getattr(m.Unit, name)


def dims() -> Dict[str, List[str]]:
    d: Dict[str, List[str]] = {}
    for n, u in table().items():
        d.setdefault(u["dim"], []).append(n)
    return d


# ---- variants used by other properties (C19, C17, C13 ...) -----------------

def angular_variants():
    """(name, Unit, units per mil as Fraction/float, tolerance) for expressing the same angle in another unit"""
    out = []
    for n in dims()["angular"]:
        k = table()[n]["kind"]
        if k == "lin":
            out.append((n, unit_enum(n), convert("Mil", n, 1), 1e-9))
    out.sort(key=lambda t: 0 if t[0] == "Mil" else 1)
    return out


def distance_variants():
    out = [(unit_enum(n), convert("Yard", n, 1)) for n in dims()["distance"]]
    out.sort(key=lambda t: 0 if str(t[0]) == "yard" else 1)
    return out
