#!/bin/sh
# Offline setup: nothing to build (TLA+ specs are interpreted by TLC, the harness is pure Python run by /venv/bin/python).
# Sanity-check the tools the checks need and that the harness imports /repo's working tree.
set -e
cd "$(dirname "$0")"
java -version 2>&1 | head -1
test -f /opt/veriftools/tla/tla2tools.jar
/venv/bin/python - <<'PY'
import sys
sys.path.insert(0, "harness")
from pbv import core
core.use_repo(hooks=False)
import py_ballisticcalc
print("py_ballisticcalc from", py_ballisticcalc.__file__)
PY
mkdir -p evidence .scratch
echo setup ok
