-------------------------------- MODULE Atmo --------------------------------
(***************************************************************************)
(* The discrete behaviour of the atmosphere object (not a listed property  *)
(* on its own: it is the finite residue of C08, whose real-valued clauses  *)
(* are out of reach of a TLA+ model).                                      *)
(*   humidity : accepted iff 0 <= h <= 100; a value above 1 is a percent-  *)
(*              age and is stored as the fraction h/100, a value in [0,1]  *)
(*              is stored as it is ("fraction or percent meaning the       *)
(*              same"); a rejected value changes nothing                   *)
(*   density  : a function of the stored state only (recomputed by every   *)
(*              accepted humidity change; never for a vacuum: always 0)    *)
(*   altitude query : within 30 ft of the station altitude the station's   *)
(*              own values are returned, otherwise the lapse-rate model    *)
(* Humidity values are in thousandths (h1000 = 1000 h).                    *)
(***************************************************************************)
EXTENDS Integers, Sequences, TLC
CONSTANTS Humidities,    \* values tried, in thousandths
          Deltas,        \* query altitude minus station altitude, in feet
          IsVacuum, MaxOps

Accept(h) == 0 <= h /\ h <= 100000
Stored(h) == IF h > 1000 THEN h \div 100 ELSE h            \* percent -> fraction (thousandths kept exact for the values used)
Branch(d) == IF (IF d < 0 THEN -d ELSE d) < 30 THEN "station" ELSE "model"

VARIABLES hum, recomputed, last, ops
vars == <<hum, recomputed, last, ops>>

Init == /\ hum \in {Stored(h) : h \in {x \in Humidities : Accept(x)}}
        /\ recomputed = 1            \* the constructor computes the density once
        /\ last = [a |-> "New", arg |-> 0, ok |-> TRUE, res |-> "none"] /\ ops = 0

SetHumidity(h) ==
  /\ ops < MaxOps /\ ops' = ops + 1
  /\ IF Accept(h)
     THEN /\ hum' = Stored(h)
          /\ recomputed' = IF IsVacuum THEN recomputed ELSE recomputed + 1
          /\ last' = [a |-> "SetHumidity", arg |-> h, ok |-> TRUE, res |-> "none"]
     ELSE /\ UNCHANGED <<hum, recomputed>>
          /\ last' = [a |-> "SetHumidity", arg |-> h, ok |-> FALSE, res |-> "none"]

Query(d) ==
  /\ ops < MaxOps /\ ops' = ops + 1
  /\ last' = [a |-> "Query", arg |-> d, ok |-> TRUE, res |-> Branch(d)]
  /\ UNCHANGED <<hum, recomputed>>

Next == (\E h \in Humidities : SetHumidity(h)) \/ (\E d \in Deltas : Query(d))
Spec == Init /\ [][Next]_vars

A_StoredIsFraction == 0 <= hum /\ hum <= 1000
A_RejectedChangesNothing == [][(last'.a = "SetHumidity" /\ ~last'.ok) => UNCHANGED <<hum, recomputed>>]_vars
A_PercentEqualsFraction == \A h \in Humidities : (Accept(h) /\ h <= 1000 /\ Accept(100 * h) /\ 100 * h > 1000) => Stored(100 * h) = Stored(h)
A_StationBranchNearStation == (last.a = "Query" /\ last.arg = 0) => last.res = "station"
=============================================================================
