------------------------------- MODULE Config -------------------------------
(***************************************************************************)
(* C18 (settings) - configuration is honoured and local to its calculator. *)
(*                                                                         *)
(* Process-global default maximum step `gstep` with its setter (rejects    *)
(* non-positive values), reset, and calculators that FREEZE their eight    *)
(* settings at creation: a setting given to the constructor is "custom",   *)
(* an unspecified one takes the documented default - for the maximum step  *)
(* the global default in force at creation time.                           *)
(*   EffRule = "frozen": a computation uses the calculator's own settings  *)
(*             "live"  : (deviation) the step is read from the global at   *)
(*                       computation time - TLC refutes C18_Local.         *)
(***************************************************************************)
EXTENDS Integers, Sequences, FiniteSets, TLC

CONSTANTS Calcs, StepValues, EffRule, MaxOps,
          OverSets      \* the families of constructor settings explored (SUBSET Settings = all 256)
Settings == {"max_calc_step_size_feet", "cZeroFindingAccuracy", "cMinimumVelocity", "cMaximumDrop",
             "cMaxIterations", "cGravityConstant", "cMinimumAltitude", "chart_resolution"}
\* setting values: -2 no calculator yet, -1 custom (given to the constructor), 0 documented default,
\* v > 0 the global default step v in force at creation
Absent == -2
Custom == -1
Default == 0
NoCfg == [k \in Settings |-> Absent]

VARIABLES gstep, cfg, used, ops, last
vars == <<gstep, cfg, used, ops, last>>

Never == -3
Init == /\ gstep = Default /\ cfg = [c \in Calcs |-> NoCfg] /\ used = [c \in Calcs |-> Never]
        /\ ops = 0 /\ last = [a |-> "New", c |-> "", v |-> 0, over |-> {}, ok |-> TRUE]

Step(l) == ops < MaxOps /\ ops' = ops + 1 /\ last' = l

SetGlobalStep(v) ==
  /\ Step([a |-> "SetGlobalStep", c |-> "", v |-> v, over |-> {}, ok |-> v > 0])
  /\ gstep' = IF v > 0 THEN v ELSE gstep                 \* non-positive: rejected, nothing changes
  /\ UNCHANGED <<cfg, used>>

ResetGlobals ==
  /\ Step([a |-> "ResetGlobals", c |-> "", v |-> 0, over |-> {}, ok |-> TRUE])
  /\ gstep' = Default /\ UNCHANGED <<cfg, used>>

NewCalc(c, over) ==
  /\ Step([a |-> "NewCalc", c |-> c, v |-> 0, over |-> over, ok |-> TRUE])
  /\ cfg' = [cfg EXCEPT ![c] = [k \in Settings |->
               IF k \in over THEN Custom
               ELSE IF k = "max_calc_step_size_feet" THEN gstep ELSE Default]]
  /\ used' = [used EXCEPT ![c] = Never]
  /\ UNCHANGED gstep

\* a computation with calculator c: which maximum step governs it
Use(c) ==
  /\ cfg[c] # NoCfg
  /\ Step([a |-> "Use", c |-> c, v |-> 0, over |-> {}, ok |-> TRUE])
  /\ used' = [used EXCEPT ![c] = IF EffRule = "live" /\ cfg[c]["max_calc_step_size_feet"] # Custom
                                    THEN gstep ELSE cfg[c]["max_calc_step_size_feet"]]
  /\ UNCHANGED <<gstep, cfg>>

Next == \/ \E v \in StepValues : SetGlobalStep(v)
        \/ ResetGlobals
        \/ \E c \in Calcs, over \in OverSets : NewCalc(c, over)
        \/ \E c \in Calcs : Use(c)
Spec == Init /\ [][Next]_vars

\* a calculator's settings never change after creation (only NewCalc(c, _) writes cfg[c])
C18_Frozen == [][\A c \in Calcs : (cfg[c] # NoCfg /\ ~(last'.a = "NewCalc" /\ last'.c = c)) => cfg'[c] = cfg[c]]_vars
\* every computation is governed by the calculator's own (frozen) maximum step, whatever happened to the global since
C18_Local == \A c \in Calcs : used[c] # Never => used[c] = cfg[c]["max_calc_step_size_feet"]
\* the global setter rejects non-positive values and changes nothing then
C18_RejectsNonPositive == [][(last'.a = "SetGlobalStep" /\ last'.v <= 0) => (~last'.ok /\ gstep' = gstep)]_vars
C18_GlobalPositive == gstep >= 0
=============================================================================
