------------------------------ MODULE ConfigLoad ------------------------------
(***************************************************************************)
(* Which configuration file basicConfig() loads, and which argument        *)
(* combinations it accepts (API surface behind C18's "configuration        *)
(* files", not itself a listed property).                                  *)
(* The search walks from the working directory up to the root; in each     *)
(* directory `.pybc.toml` wins over `pybc.toml`; if nothing is found the   *)
(* same walk starts from the package directory.  Directories are numbered  *)
(* 1 (deepest = working directory) .. Depth (top of the scratch tree);     *)
(* above it nothing exists; the package walk always ends at the repo's own *)
(* template ("package").                                                   *)
(*   Arguments: a file name excludes preferred_units / max_calc_step_size  *)
(*   (ValueError); without a file name the given arguments are applied     *)
(*   directly and no file is searched.                                     *)
(***************************************************************************)
EXTENDS Integers, Sequences, FiniteSets, TLC
CONSTANT Depth
Contents == {"none", "dot", "plain", "both"}
VARIABLES tree, args, outcome
vars == <<tree, args, outcome>>
Init == /\ tree \in [1..Depth -> Contents]
        /\ args \in [file : BOOLEAN, prefs : BOOLEAN, step : BOOLEAN]
        /\ outcome = "pending"
Found(t) == {i \in 1..Depth : t[i] # "none"}
FirstFound(t) == CHOOSE i \in Found(t) : \A j \in Found(t) : i <= j
Loaded(t) == IF Found(t) = {} THEN <<0, "package">>
             ELSE LET i == FirstFound(t) IN IF t[i] \in {"dot", "both"} THEN <<i, "dot">> ELSE <<i, "plain">>
Call ==
  /\ outcome = "pending"
  /\ outcome' = IF args.file /\ (args.prefs \/ args.step) THEN "ValueError"
                ELSE IF args.file THEN "explicit-file"
                ELSE IF args.prefs \/ args.step THEN "arguments-applied"
                ELSE "searched"
  /\ UNCHANGED <<tree, args>>
Next == Call
Spec == Init /\ [][Next]_vars
L_NearestWins == (Found(tree) # {}) => \A j \in Found(tree) : FirstFound(tree) <= j
L_DotWins == \A i \in 1..Depth : tree[i] = "both" => (Found(tree) # {} /\ FirstFound(tree) = i => Loaded(tree) = <<i, "dot">>)
=============================================================================
