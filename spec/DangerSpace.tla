---------------------------- MODULE DangerSpace ----------------------------
(***************************************************************************)
(* C16 - danger space is the contiguous stretch of trajectory within the   *)
(* target.                                                                 *)
(*                                                                         *)
(* A trajectory is a sequence of rows; row k (1-based) has drop drops[k]   *)
(* (relative to the sight line) and the rows are in increasing distance.   *)
(* The request names a target row `tgt` (the first row at or beyond the    *)
(* requested range; 0 = the range lies beyond the last row) and a target   *)
(* half-height.  Drops are doubled integers so that a half-height can fall *)
(* exactly on, or strictly between, drop differences.                      *)
(*                                                                         *)
(* Admissible(b, e) is the statement of C16 itself.  The two scans of      *)
(* HitResult.danger_space are modelled row by row (one Step per row        *)
(* examined); ScanRule selects the comparison:                             *)
(*   "twosided": a row ends the stretch when its drop differs from the     *)
(*               target row's by at least the half-height, above OR below  *)
(*   "asis"    : the pinned code's rule (named deviation): the backward    *)
(*               scan only stops at rows ABOVE, the forward scan only at   *)
(*               rows BELOW the target's drop - TLC refutes it on any      *)
(*               rising branch.                                            *)
(***************************************************************************)
EXTENDS DangerSpaceOps, TLC

CONSTANTS MaxLen, MaxDrop, Halves, ScanRule

Trajs == UNION {[1..n -> 0..MaxDrop] : n \in 1..MaxLen}

(* ---- the statement ---------------------------------------------------- *)
Admissible(d, t, h, b, e) == AdmissibleC(Cls(d, t, h), t, b, e)

AdmissibleSet(d, t, h) ==
  {<<b, e>> \in (1..Len(d)) \X (1..Len(d)) : Admissible(d, t, h, b, e)}

(* ---- the scans -------------------------------------------------------- *)
StopsBegin(d, t, h, k) ==
  IF ScanRule = "asis" THEN Diff(d, t, k) >= h ELSE Abs(Diff(d, t, k)) >= h
StopsEnd(d, t, h, k) ==
  IF ScanRule = "asis" THEN -Diff(d, t, k) >= h ELSE Abs(Diff(d, t, k)) >= h

VARIABLES drops, tgt, half, b, e, cur, pc
vars == <<drops, tgt, half, b, e, cur, pc>>

Init ==
  /\ drops \in Trajs
  /\ tgt \in 0..Len(drops)
  /\ half \in Halves
  /\ b = 0 /\ e = 0
  /\ cur = tgt - 1
  /\ pc = IF tgt = 0 THEN "error" ELSE "begin"

BeginStep ==
  /\ pc = "begin"
  /\ IF cur < 1 THEN b' = 1 /\ pc' = "end" /\ cur' = tgt + 1
     ELSE IF StopsBegin(drops, tgt, half, cur) THEN b' = cur /\ pc' = "end" /\ cur' = tgt + 1
     ELSE cur' = cur - 1 /\ UNCHANGED <<b, pc>>
  /\ UNCHANGED <<drops, tgt, half, e>>

EndStep ==
  /\ pc = "end"
  /\ IF cur > Len(drops) THEN e' = Len(drops) /\ pc' = "done" /\ cur' = cur
     ELSE IF StopsEnd(drops, tgt, half, cur) THEN e' = cur /\ pc' = "done" /\ cur' = cur
     ELSE cur' = cur + 1 /\ UNCHANGED <<e, pc>>
  /\ UNCHANGED <<drops, tgt, half, b>>

Next == BeginStep \/ EndStep
Spec == Init /\ [][Next]_vars /\ WF_vars(Next)

(* ---- properties ------------------------------------------------------- *)
\* closed form of what the scans compute (used for the monotonicity clause)
ScanB(d, t, h) == LET S == {k \in 1..(t - 1) : StopsBegin(d, t, h, k)}
                  IN IF S = {} THEN 1 ELSE CHOOSE k \in S : \A j \in S : j <= k
ScanE(d, t, h) == LET S == {k \in (t + 1)..Len(d) : StopsEnd(d, t, h, k)}
                  IN IF S = {} THEN Len(d) ELSE CHOOSE k \in S : \A j \in S : k <= j

C16_Admissible == pc = "done" => Admissible(drops, tgt, half, b, e)
C16_ScanClosedForm == pc = "done" => b = ScanB(drops, tgt, half) /\ e = ScanE(drops, tgt, half)
\* a taller target never shrinks the danger space
C16_Monotone == pc = "done" =>
  \A h2 \in Halves : h2 >= half => ScanB(drops, tgt, h2) <= b /\ ScanE(drops, tgt, h2) >= e
\* a range beyond the trajectory is an error, never a row
C16_BeyondIsError == (tgt = 0) => pc = "error" /\ b = 0 /\ e = 0
C16_Terminates == <>(pc \in {"done", "error"})
=============================================================================
