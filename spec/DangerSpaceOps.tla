-------------------------- MODULE DangerSpaceOps --------------------------
(* Pure operators of C16 shared by the design model (DangerSpace), the      *)
(* case generator (Gen_DangerSpace) and the trace spec (Trace_DangerSpace). *)
EXTENDS Integers, Sequences, FiniteSets

Abs(x) == IF x < 0 THEN -x ELSE x

(* Classification of a row against the target: -1 strictly within half the  *)
(* target height of the target row's drop, 0 exactly at half the height,    *)
(* +1 further away.  The statement of C16 in terms of the classification:   *)
AdmissibleC(cls, t, b, e) ==
  /\ 1 <= b /\ b <= t /\ t <= e /\ e <= Len(cls)                    \* two rows bracketing the target row
  /\ \A k \in (b + 1)..(e - 1) : cls[k] <= 0                        \* interior rows within half height
  /\ (b = 1 \/ cls[b] >= 0)                                         \* bound: end row, or at least half height away
  /\ (e = Len(cls) \/ cls[e] >= 0)

\* drop difference of row k to the target row, doubled
Diff(d, t, k) == 2 * d[k] - 2 * d[t]
Sign(x) == IF x < 0 THEN -1 ELSE IF x = 0 THEN 0 ELSE 1
Cls(d, t, h) == [k \in 1..Len(d) |-> Sign(Abs(Diff(d, t, k)) - h)]
=============================================================================
