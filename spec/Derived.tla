------------------------------- MODULE Derived -------------------------------
(***************************************************************************)
(* Beyond the listed properties (C05 is declared not applicable: its       *)
(* clauses are equalities with transcendental expressions).  What IS       *)
(* discrete or rational in the derived columns of a trajectory row is      *)
(* transcribed here and bound to the code:                                 *)
(*   - the case split of the spin drift: present iff the rifling twist,    *)
(*     the bullet length and the bullet diameter are all given; signed by  *)
(*     the twist direction; zero at time zero; a left-hand twist is the    *)
(*     exact mirror of a right-hand one;                                   *)
(*   - with a level sight line every geometric column is a rational        *)
(*     function of the integer state: distance, height, target drop, look  *)
(*     distance, windage = lateral position + drift, Mach = speed / sound, *)
(*     energy = w v^2 / 450400, optimal game weight = w^2 v^3 1.5e-12;     *)
(*   - both adjustments are zero at the muzzle (distance 0) whatever the   *)
(*     look angle, and the drop adjustment of a point on the horizontal    *)
(*     through the muzzle is minus the look angle;                         *)
(*   - in the reference conditions (2800 fps, 59 F, 29.92 inHg) the Miller *)
(*     stability is the rational 30 w / (tr^2 d^3 l (1 + l^2)).            *)
(* One Init state per case; the invariants are the laws of the split; the  *)
(* generator emits the expected row for each case (Gen_Derived).           *)
(***************************************************************************)
EXTENDS Integers, Sequences, TLC
CONSTANTS Twists,      \* signed rifling twists in inches (0 = none given)
          Weights,     \* bullet weights in grains
          Coords,      \* position coordinates in feet
          Speeds,      \* speeds in fps (also speed of sound)
          Times        \* subset of {0, 1}: pow(t, 1.83) is exact there

Sign(n) == IF n > 0 THEN 1 ELSE IF n < 0 THEN -1 ELSE 0
Abs(n) == IF n < 0 THEN -n ELSE n

VARIABLES tw, hasLen, hasDia, w, x, y, z, v, snd, t, lookNonZero
vars == <<tw, hasLen, hasDia, w, x, y, z, v, snd, t, lookNonZero>>

Init == /\ tw \in Twists /\ hasLen \in BOOLEAN /\ hasDia \in BOOLEAN /\ w \in Weights
        /\ x \in {c \in Coords : c >= 0} /\ y \in Coords /\ z \in Coords
        /\ v \in Speeds /\ snd \in Speeds /\ t \in Times /\ lookNonZero \in BOOLEAN
Next == UNCHANGED vars
Spec == Init /\ [][Next]_vars

(* bullet of diameter 1 in and (when given) length 1 in: tr = |twist|, l = 1 *)
Stable(tw_, hl, hd) == tw_ # 0 /\ hl /\ hd
SgNum(tw_, w_) == 15 * w_                 \* 30 w / (tr^2 * 1 * 1 * 2)
SgDen(tw_) == tw_ * tw_
\* drift in feet at time t in {0, 1}:  sign * 1.25 (Sg + 1.2) t^1.83 / 12   =  sign * (25 SgNum + 30 SgDen) / (240 SgDen)
DriftNum(tw_, hl, hd, w_, t_) == IF Stable(tw_, hl, hd) /\ t_ > 0 THEN Sign(tw_) * (25 * SgNum(tw_, w_) + 30 * SgDen(tw_)) ELSE 0
DriftDen(tw_) == IF tw_ = 0 THEN 1 ELSE 240 * SgDen(tw_)
DriftSign(tw_, hl, hd, w_, t_) == Sign(DriftNum(tw_, hl, hd, w_, t_))

\* classes of atan(offset / distance): "zero" | "pos" | "neg", and whether |offset| = distance (exactly a quarter of pi)
AdjClass(dist, off) == IF dist = 0 \/ off = 0 THEN "zero" ELSE IF off > 0 THEN "pos" ELSE "neg"
Quarter(dist, off) == dist # 0 /\ Abs(off) = dist

\* windage as a rational over the drift denominator
WindNum == z * DriftDen(tw) + DriftNum(tw, hasLen, hasDia, w, t)
WindDen == DriftDen(tw)

Expected ==
  [ stable |-> Stable(tw, hasLen, hasDia),
    sg |-> IF Stable(tw, hasLen, hasDia) THEN <<SgNum(tw, w), SgDen(tw)>> ELSE <<0, 1>>,
    drift |-> <<DriftNum(tw, hasLen, hasDia, w, t), DriftDen(tw)>>,
    distance |-> x, height |-> y, lookDistance |-> x, targetDrop |-> y,   \* the last two only for a level sight line
    windage |-> <<WindNum, WindDen>>,
    mach |-> <<v, snd>>,
    energy |-> <<w * v * v, 450400>>,
    ogw |-> [n |-> 3 * w * w * v * v * v, d |-> 2, e10 |-> 12],
    dropAdj |-> [cls |-> AdjClass(x, y), quarter |-> Quarter(x, y), minusLook |-> x # 0 /\ y = 0, zero |-> x = 0],
    windAdj |-> [cls |-> AdjClass(x, WindNum), quarter |-> x # 0 /\ Abs(WindNum) = x * WindDen, zero |-> x = 0 \/ WindNum = 0] ]

(* ---- laws of the split ---- *)
D_DriftIffAllGiven == (DriftSign(tw, hasLen, hasDia, w, t) # 0) <=> (tw # 0 /\ hasLen /\ hasDia /\ t > 0)
D_DriftSignedByTwist == DriftSign(tw, hasLen, hasDia, w, t) # 0 => DriftSign(tw, hasLen, hasDia, w, t) = Sign(tw)
D_LeftMirrorsRight == DriftNum(-tw, hasLen, hasDia, w, t) = -DriftNum(tw, hasLen, hasDia, w, t)
D_NoDriftAtMuzzleTime == t = 0 => WindNum = z * WindDen
D_MuzzleAdjustmentsZero == x = 0 => Expected.dropAdj.zero /\ Expected.windAdj.zero
D_WindageIsLateralPlusDrift == WindNum * DriftDen(tw) = (z * DriftDen(tw) + DriftNum(tw, hasLen, hasDia, w, t)) * WindDen
D_EnergyMonotone == \A v2 \in Speeds : v2 > v => w * v2 * v2 >= w * v * v
=============================================================================
