----------------------------- MODULE DragLookup -----------------------------
(***************************************************************************)
(* C09 - drag used by the solver is faithful to the drag table.            *)
(*                                                                         *)
(* The table search of _calculate_by_curve_and_mach_list as a small-step   *)
(* state machine: Probe halves [mlo, mhi] (0-based node indices, mhi       *)
(* starts at n-2), Choose takes the nearer of the two nodes and returns    *)
(* the curve piece with that index (piece 0 = line through the first two   *)
(* nodes, piece m = parabola through nodes m-1, m, m+1 in 0-based terms).  *)
(* TLC checks on every table shape and every query (node positions and     *)
(* queries doubled, so queries hit nodes, midpoints and quarter points)    *)
(* that the chosen piece passes through both neighbours of the query.      *)
(*   NearRule = "nearest" (as coded) / "inverted" (deviation: the farther  *)
(*   node) - TLC refutes the latter.                                       *)
(***************************************************************************)
EXTENDS DragLookupOps, TLC

CONSTANTS MaxNodes, Gaps, NearRule

RECURSIVE Tables(_)
Tables(n) == IF n = 1 THEN {<<0>>}
             ELSE {Append(t, t[Len(t)] + g) : t \in Tables(n - 1), g \in Gaps}
AllTables == UNION {Tables(n) : n \in 3..MaxNodes}

VARIABLES xs, q, mlo, mhi, pc, piece
vars == <<xs, q, mlo, mhi, pc, piece>>

\* positions are in quarter units: node positions 4*x, queries any integer from below the first node to beyond the last
Pos(t, i) == 4 * t[i]

Init == /\ xs \in AllTables
        /\ q \in (-2)..(4 * xs[Len(xs)] + 3)
        /\ mlo = 0 /\ mhi = Len(xs) - 2 /\ pc = "search" /\ piece = -1

Probe ==
  /\ pc = "search" /\ mhi - mlo > 1
  /\ LET mid == (mhi + mlo) \div 2 IN
       IF Pos(xs, mid + 1) < q THEN mlo' = mid /\ mhi' = mhi ELSE mhi' = mid /\ mlo' = mlo
  /\ UNCHANGED <<xs, q, pc, piece>>

Choose ==
  /\ pc = "search" /\ mhi - mlo <= 1
  /\ LET farHi == Pos(xs, mhi + 1) - q > q - Pos(xs, mlo + 1)      \* mhi is the farther node
         m == IF NearRule = "nearest" THEN (IF farHi THEN mlo ELSE mhi) ELSE (IF farHi THEN mhi ELSE mlo)
     IN piece' = m
  /\ pc' = "done"
  /\ UNCHANGED <<xs, q, mlo, mhi>>

Next == Probe \/ Choose
Spec == Init /\ [][Next]_vars /\ WF_vars(Next)

\* 0-based code piece m = piece m+1 of the 1-based operator module (piece 0 stays 0)
OpsPiece(m) == IF m = 0 THEN 0 ELSE m + 1
Xs4 == [i \in 1..Len(xs) |-> Pos(xs, i)]

C09_ChosenPieceAdmissible == pc = "done" => Admissible(Xs4, q, OpsPiece(piece))
C09_PieceExists == pc = "done" => piece \in 0..(Len(xs) - 2)
C09_BracketKept == pc = "search" => (mlo <= mhi /\ mlo >= 0 /\ mhi <= Len(xs) - 2)
C09_Terminates == <>(pc = "done")
=============================================================================
