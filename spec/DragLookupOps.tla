--------------------------- MODULE DragLookupOps ---------------------------
(* Pure operators of C09 shared by the design model, the generator and the  *)
(* trace spec.  A table has n >= 3 nodes (1-based here); piece 0 is the      *)
(* straight line through nodes 1, 2; piece m (2 <= m <= n-1) is the parabola *)
(* through nodes m-1, m, m+1.  A query lies in cell i when                   *)
(* node i <= query <= node i+1 (i = 0: below the first node, i = n: beyond   *)
(* the last).  On a node the query belongs to both adjacent cells.           *)
EXTENDS Integers, Sequences, FiniteSets

\* pieces that pass through both neighbours of a query in cell i
AdmissiblePieces(n, i) ==
  IF i >= n THEN {n - 1}                                     \* beyond the table: the last three points
  ELSE IF i <= 0 THEN {0, 2}                                 \* below the first node: the first interval's pieces
  ELSE ({i, i + 1} \cap (2..(n - 1))) \cup (IF i = 1 THEN {0} ELSE {})

\* cells of a doubled query position q2 in a table with doubled node positions xs2 (strictly ascending)
Cells(xs2, q2) ==
  LET n == Len(xs2) IN
  {i \in 0..n : (i = 0 /\ q2 <= xs2[1]) \/ (i = n /\ q2 >= xs2[n])
                \/ (i \in 1..(n - 1) /\ xs2[i] <= q2 /\ q2 <= xs2[i + 1])}

Admissible(xs2, q2, piece) == \E i \in Cells(xs2, q2) : piece \in AdmissiblePieces(Len(xs2), i)
=============================================================================
