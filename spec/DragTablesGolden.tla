-------------------------- MODULE DragTablesGolden --------------------------
(* Identity of the nine shipped standard drag tables (C09: "the shipped      *)
(* tables are the published standard tables, ascending from Mach 0,          *)
(* unchanged by any library call").  The published tables cannot be fetched  *)
(* offline; the trusted base is that the pinned tree ships them: the digest  *)
(* (SHA-256 over the hex-float Mach/CD pairs in order), the number of nodes, *)
(* CD at Mach 1 (x 10^4) and the last Mach number (x 100) of each table were *)
(* transcribed once from the pinned tree and are re-checked before and after *)
(* library use by every C09 / C10 / C14 run.                                 *)
EXTENDS Integers, Sequences
GoldenTables == <<
  [name |-> "G1", n |-> 79, sha256 |-> "a25c789da548603acb6fe5fc45eaef30d8037816e1cf7d5259255262aee20129", cdAtMach1e4 |-> 4805, lastMach100 |-> 500],
  [name |-> "G7", n |-> 84, sha256 |-> "d1b7e3c80a68b1e4b92aefee715f3c1e46de8c42e16f10aafe33ded57dc0076d", cdAtMach1e4 |-> 3803, lastMach100 |-> 500],
  [name |-> "G2", n |-> 85, sha256 |-> "510f9aa43ebd4bc353d95f9c181ac0c63462ce9575e5e1b8c96883084cabb9da", cdAtMach1e4 |-> 3983, lastMach100 |-> 500],
  [name |-> "G5", n |-> 76, sha256 |-> "0d1796ac71988fa3eedd6d54cefc879ae6cb47048096485dca17d9dcf45786b5", cdAtMach1e4 |-> 3379, lastMach100 |-> 500],
  [name |-> "G6", n |-> 79, sha256 |-> "932d339eae87cccb7d17f5ade9ad7658de52ea8e6ce2856f7fda32d64506cdd5", cdAtMach1e4 |-> 3597, lastMach100 |-> 500],
  [name |-> "G8", n |-> 78, sha256 |-> "d6ea3a0f6b7b67648e47837fffed971b884a9bb4ad4f9b250790b703e554b5ce", cdAtMach1e4 |-> 4068, lastMach100 |-> 500],
  [name |-> "GI", n |-> 81, sha256 |-> "e506b8d7a9d74f6ef4ed6c3dd6dc26a0e477503a4021c96601a8c737a3e8ba9b", cdAtMach1e4 |-> 4349, lastMach100 |-> 500],
  [name |-> "GS", n |-> 81, sha256 |-> "d6e3f8fb84a772dd2ad43a2590cbdea5d62ed14578736a51182e11a48f563f02", cdAtMach1e4 |-> 8140, lastMach100 |-> 400],
  [name |-> "RA4", n |-> 87, sha256 |-> "07f0fa24186dc05f8a02cfb0de8922d329511c2b0be6b220dfcb1011d19cf3ff", cdAtMach1e4 |-> 3975, lastMach100 |-> 400]
>>
=============================================================================
