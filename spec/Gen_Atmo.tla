------------------------------- MODULE Gen_Atmo -------------------------------
EXTENDS Atmo, Json
VARIABLE hist, h0
GenInit == Init /\ hist = <<>> /\ h0 = hum
GenNext == Next /\ hist' = Append(hist, [op |-> last', hum |-> hum']) /\ UNCHANGED h0
GenSpec == GenInit /\ [][GenNext]_<<vars, hist, h0>>
Emit == (ops = MaxOps) => PrintT(<<"BEH", ToJson([h0 |-> h0, ops |-> hist])>>)
=============================================================================
