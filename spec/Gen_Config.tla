----------------------------- MODULE Gen_Config -----------------------------
(* Behaviour generator for C18 (settings): Config plus a history with the   *)
(* expected global step and every calculator's expected settings after each *)
(* operation.                                                               *)
EXTENDS Config, Json
VARIABLE hist
GenInit == Init /\ hist = <<>>
GenNext == Next /\ hist' = Append(hist, [op |-> last', gstep |-> gstep', cfg |-> cfg'])
GenSpec == GenInit /\ [][GenNext]_<<vars, hist>>
Emit == (ops = MaxOps) => PrintT(<<"BEH", ToJson(hist)>>)
=============================================================================
