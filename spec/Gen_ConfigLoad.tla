---------------------------- MODULE Gen_ConfigLoad ----------------------------
EXTENDS ConfigLoad, Json
Emit == (outcome # "pending") => PrintT(<<"CASE", ToJson([tree |-> tree, args |-> args, outcome |-> outcome,
         loaded |-> Loaded(tree)])>>)
=============================================================================
