-------------------------- MODULE Gen_DangerSpace --------------------------
(* Case generator for C16: every (trajectory, target row, half height) of  *)
(* the bounded DangerSpace model with the set of ADMISSIBLE (begin, end)   *)
(* pairs defined by the statement, for replay into HitResult.danger_space. *)
EXTENDS DangerSpace, Json
GenNext == UNCHANGED vars
Emit == PrintT(<<"CASE", ToJson([d |-> drops, t |-> tgt, h |-> half,
                  adm |-> IF tgt = 0 THEN {} ELSE AdmissibleSet(drops, tgt, half)])>>)
=============================================================================
