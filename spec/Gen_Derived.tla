----------------------------- MODULE Gen_Derived -----------------------------
EXTENDS Derived, Json
Emit == PrintT(<<"CASE", ToJson([tw |-> tw, hasLen |-> hasLen, hasDia |-> hasDia, w |-> w, x |-> x, y |-> y, z |-> z,
                                 v |-> v, snd |-> snd, t |-> t, lookNonZero |-> lookNonZero, want |-> Expected])>>)
=============================================================================
