--------------------------- MODULE Gen_DragLookup ---------------------------
(* Every (table shape, query) of the bounded DragLookup model with the set   *)
(* of admissible pieces, for replay into calculate_curve +                   *)
(* _calculate_by_curve_and_mach_list and TrajectoryCalc.drag_by_mach.        *)
EXTENDS DragLookup, DragTablesGolden, Json
ASSUME PrintT(<<"GOLDEN", ToJson(GoldenTables)>>)
GenNext == UNCHANGED vars
Emit == PrintT(<<"CASE", ToJson([xs |-> xs, q4 |-> q,
         adm |-> {p \in 0..Len(xs) : Admissible(Xs4, q, p)}])>>)
=============================================================================
