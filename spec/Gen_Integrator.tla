--------------------------- MODULE Gen_Integrator ---------------------------
(* Behaviour generator for the solver-loop controller: Integrator plus a    *)
(* history variable holding, per iteration, what the environment presented  *)
(* (x, side, sup, time = iteration - 1) and what the controller must do     *)
(* (flags, multiple recorded, wind segment, controller state afterwards).   *)
(* A behaviour is emitted when the loop has ended (Done or RangeErr); used   *)
(* with exhaustive search on tiny constants and with -simulate otherwise.    *)
(* The real _TrajectoryDataFilter and _WindSock objects are then driven      *)
(* with exactly these inputs and compared after every call.                  *)
EXTENDS Integrator, Json
VARIABLE hist
GenInit == Init /\ hist = <<>>
GenNext ==
  \/ /\ Iteration
     /\ hist' = Append(hist, [x |-> x, side |-> side, sup |-> sup, fl |-> lastFl',
                              k |-> IF Len(recIt') > Len(recIt) THEN recIt'[Len(recIt')][1] ELSE -1,
                              seg |-> usedSeg', nextRec |-> ctl'.nextRec, seen |-> ctl'.seen,
                              viol |-> viol', status |-> status', reason |-> reason'])
  \/ /\ LoopExit /\ UNCHANGED hist
GenSpec == GenInit /\ [][GenNext]_<<vars, hist>>
Emit == (status # "Running") =>
  PrintT(<<"BEH", ToJson([status |-> status, reason |-> reason, its |-> hist, finalX |-> x])>>)
=============================================================================
