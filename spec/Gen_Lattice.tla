----------------------------- MODULE Gen_Lattice -----------------------------
(* Every lattice scenario with the complete expected result of fire().       *)
EXTENDS Lattice, Json
Emit == (status # "Running") =>
  PrintT(<<"CASE", ToJson([sc |-> sc, rows |-> rows, status |-> status, reason |-> reason, its |-> it,
                           final |-> [x |-> x, t |-> t, y |-> y]])>>)
=============================================================================
