----------------------------- MODULE Gen_Lookup -----------------------------
(* Case generator for C20: every initial state of Lookup (= every small     *)
(* trajectory x query x entry point) with the REQUIRED answer set, emitted  *)
(* as JSON for replay into the real helpers / HitResult accessors.          *)
EXTENDS Lookup, Json
GenNext == UNCHANGED vars
Emit == PrintT(<<"CASE", ToJson([op |-> op, col |-> col, q |-> q, dev |-> dev,
                                 req |-> Required(op, col, q, dev)])>>)
=============================================================================
