---------------------------- MODULE Gen_MultiBC ----------------------------
(* Behaviour generator for C14: build histories with, after every build,    *)
(* the expected effective-BC law of the new model and the expected          *)
(* multipliers of EVERY model so far (no model may change).                 *)
EXTENDS MultiBC, Json
VARIABLE hist
MultNext(mdl) == [k \in 1..NodeCount |-> heap'[mdl.ids[k]]]
GenInit == Init /\ hist = <<>>
GenNext == /\ Next
           /\ hist' = Append(hist, [pts |-> models'[Len(models')].pts, src |-> models'[Len(models')].src,
                                    law |-> Law(models'[Len(models')].pts),
                                    mults |-> [i \in 1..Len(models') |-> MultNext(models'[i])]])
GenSpec == GenInit /\ [][GenNext]_<<vars, hist>>
Emit == (builds = MaxBuilds) => PrintT(<<"BEH", ToJson(hist)>>)
=============================================================================
