----------------------------- MODULE Gen_Output -----------------------------
(* Histories of preference operations with the unit every row column must  *)
(* be shown in after each operation; the tables once, for the binding.     *)
EXTENDS Output, Json
ASSUME PrintT(<<"COLUMNS", ToJson(Columns)>>)
ASSUME PrintT(<<"DISPLAY", ToJson(DisplayTable)>>)
ASSUME PrintT(<<"PLAIN", ToJson(PlainFormat)>>)
VARIABLE hist
GenInit == Init /\ hist = <<>>
GenNext == Next /\ hist' = Append(hist, [op |-> last', shown |-> [i \in DOMAIN Columns |-> ShownUnit(i)']])
GenSpec == GenInit /\ [][GenNext]_<<vars, hist>>
Emit == (ops = MaxOps) => PrintT(<<"BEH", ToJson(hist)>>)
=============================================================================
