----------------------------- MODULE Gen_Powder -----------------------------
(* Behaviour generator for C17: the Powder state machine plus a history    *)
(* variable; every behaviour of exactly MaxOps operations is emitted with  *)
(* the expected (exact) outcome of each operation.                         *)
EXTENDS Powder, Json
VARIABLE hist
GenInit == Init /\ hist = <<>>
GenNext == Next /\ hist' = Append(hist, last')
\* ... and, as an epilogue, what the ammunition must report at every temperature once it is switched ON in its final state
\* (whatever the modifier went through: set, calibrated while off, calibrated again)
Emit == (ops = MaxOps) => PrintT(<<"BEH", ToJson([v0 |-> v0, T0 |-> T0, ops |-> hist,
                                                   final |-> {<<T, VelAt(v0, T0, mod, TRUE, T)>> : T \in Temps}])>>)
=============================================================================
