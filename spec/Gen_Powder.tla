----------------------------- MODULE Gen_Powder -----------------------------
(* Behaviour generator for C17: the Powder state machine plus a history    *)
(* variable; every behaviour of exactly MaxOps operations is emitted with  *)
(* the expected (exact) outcome of each operation.                         *)
EXTENDS Powder, Json
VARIABLE hist
GenInit == Init /\ hist = <<>>
GenNext == Next /\ hist' = Append(hist, last')
Emit == (ops = MaxOps) => PrintT(<<"BEH", ToJson([v0 |-> v0, T0 |-> T0, ops |-> hist])>>)
=============================================================================
