------------------------------ MODULE Gen_Prefs ------------------------------
(* Histories of preference operations with the expected slots after each,   *)
(* and (once, via ASSUME) the parameter table and presets, for the binding. *)
EXTENDS Prefs, Json
ASSUME PrintT(<<"PARAMS", ToJson(ParamTable)>>)
ASSUME PrintT(<<"PRESETS", ToJson([defaults |-> Defaults, imperial |-> Imperial, metric |-> Metric, mixed |-> Mixed])>>)
VARIABLE hist
GenInit == Init /\ hist = <<>>
GenNext == Next /\ hist' = Append(hist, [op |-> last', pref |-> pref'])
GenSpec == GenInit /\ [][GenNext]_<<vars, hist>>
Emit == (ops = MaxOps) => PrintT(<<"BEH", ToJson(hist)>>)
=============================================================================
