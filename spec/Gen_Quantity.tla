---------------------------- MODULE Gen_Quantity ----------------------------
(* Behaviour generator for C13: Quantity plus a history of the operations   *)
(* with their expected outcome and the expected display units afterwards.   *)
EXTENDS Quantity, Json
VARIABLE hist, d0
GenInit == Init /\ hist = <<>> /\ d0 = disp
GenNext == Next /\ hist' = Append(hist, [op |-> last', disp |-> disp']) /\ UNCHANGED d0
GenSpec == GenInit /\ [][GenNext]_<<vars, hist, d0>>
Emit == (ops = MaxOps) => PrintT(<<"BEH", ToJson([d0 |-> d0, ops |-> hist])>>)
=============================================================================
