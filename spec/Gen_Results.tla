----------------------------- MODULE Gen_Results -----------------------------
EXTENDS Results, Json
ASSUME PrintT(<<"NAMES", ToJson([S \in SUBSET AllFlags |-> [v |-> Value(S), name |-> Name(S)]])>>)
Emit == PrintT(<<"CASE", ToJson([traj |-> [i \in 1..Len(traj) |-> Value(traj[i])], extra |-> extra, zeros |-> Zeros(traj),
                                 firstU |-> FirstWith(traj, "U"), firstD |-> FirstWith(traj, "D"), firstM |-> FirstWith(traj, "M"),
                                 vel |-> Vel(traj), firstBelow |-> [q \in 1..6 |-> FirstBelow(traj, q - 1)]])>>)
=============================================================================
