----------------------------- MODULE Gen_Service -----------------------------
EXTENDS Service, Json
VARIABLE hist
GenInit == Init /\ hist = <<>>
GenNext == Next /\ hist' = Append(hist, [op |-> last', fh |-> fh', attached |-> attached', closed |-> closed', debug |-> debug',
                                          level |-> level', cdm |-> cdm'])
GenSpec == GenInit /\ [][GenNext]_<<vars, hist>>
Emit == (ops = MaxOps) => PrintT(<<"BEH", ToJson(hist)>>)
=============================================================================
