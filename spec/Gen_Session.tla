----------------------------- MODULE Gen_Session -----------------------------
(* Histories of session operations (C10) with, after each operation, which   *)
(* weapons' stored zero the spec allows to have changed.                     *)
EXTENDS Session, Json
VARIABLE hist
GenInit == Init /\ hist = <<>>
GenNext == Next /\ hist' = Append(hist, [a |-> last'.a, c |-> last'.c, s |-> last'.s, arg |-> last'.arg, ok |-> last'.ok,
                                         zeroChanged |-> {w \in Weapons : zero'[w] # zero[w]}, content |-> content'])
GenSpec == GenInit /\ [][GenNext]_<<vars, hist>>
Emit == (ops = MaxOps) => PrintT(<<"BEH", ToJson(hist)>>)
=============================================================================
