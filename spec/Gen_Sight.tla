------------------------------ MODULE Gen_Sight ------------------------------
(* Case generator for C19: every reachable state of Sight after Construct,  *)
(* i.e. every (sight, request) pair with the exact expected click counts,   *)
(* and every rejected construction.                                         *)
EXTENDS Sight, Json
\* one request per sight is enough for the generator: do not expand states that already hold a result
GenNext == Construct \/ (last.tgt = 0 /\ \E tgt \in TgtDists, mag \in Mags, vc \in Corrs, hc \in Corrs : Adjust(tgt, mag, vc, hc))
Emit == (status # "new") =>
  PrintT(<<"CASE", ToJson([plane |-> plane, vclick |-> vclick, hclick |-> hclick, cal |-> cal,
                           status |-> status, tgt |-> last.tgt, mag |-> last.mag,
                           vcorr |-> last.vcorr, hcorr |-> last.hcorr, v |-> last.v, h |-> last.h])>>)
=============================================================================
