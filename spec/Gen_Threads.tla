----------------------------- MODULE Gen_Threads -----------------------------
(* Every complete interleaving (schedule) of the Threads model, for the      *)
(* deterministic scheduler that drives real threads at the hook.             *)
EXTENDS Threads, Json
Emit == Done => PrintT(<<"SCHED", ToJson(sched)>>)
=============================================================================
