--------------------------- MODULE Gen_UnitAlgebra ---------------------------
(* Exports the unit table (the SI definitions) and every ordered pair and   *)
(* triple of units of one dimension, with the exact factored conversion     *)
(* factor of each pair, as JSON for the binding harness.                    *)
EXTENDS UnitAlgebra, Json, SequencesExt
VARIABLE item
Items == {[k |-> "unit", a |-> i, b |-> 0, c |-> 0] : i \in Idx}
         \cup {[k |-> "pair", a |-> p[1], b |-> p[2], c |-> 0] : p \in Pairs}
         \cup {[k |-> "triple", a |-> t[1], b |-> t[2], c |-> t[3]] : t \in Triples}
GInit == item \in Items /\ start = 1 /\ cur = 1 /\ acc = FOne /\ len = 0
GNext == UNCHANGED <<vars, item>>
BagSeq(b) == SetToSeq({<<x, b[x]>> : x \in DOMAIN b})
Emit ==
  CASE item.k = "unit" -> PrintT(<<"UNIT", ToJson(UnitTable[item.a])>>)
    [] item.k = "pair" -> LET f == Factor(item.a, item.b) IN
         PrintT(<<"PAIR", ToJson([u |-> UnitTable[item.a].name, v |-> UnitTable[item.b].name,
                                  n |-> BagSeq(f.n), d |-> BagSeq(f.d), pi |-> f.pi])>>)
    [] item.k = "triple" ->
         PrintT(<<"TRIPLE", ToJson(<<UnitTable[item.a].name, UnitTable[item.b].name, UnitTable[item.c].name>>)>>)
=============================================================================
