---------------------------- MODULE Gen_UnitNames ----------------------------
(* Emits every (entry point, name, case, blanks, numeric prefix) case of     *)
(* UnitNames with the required outcome, for replay into the real parsers.    *)
EXTENDS UnitNames, Json
Emit == (outcome # "pending") =>
  PrintT(<<"CASE", ToJson([entry |-> entry, name |-> Names[idx].name, cp |-> Names[idx].cp, known |-> Names[idx].known,
                           variant |-> <<case, blank, prefix>>, want |-> outcome])>>)
=============================================================================
