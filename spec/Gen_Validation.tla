--------------------------- MODULE Gen_Validation ---------------------------
(* Every argument-class combination with the required outcome.              *)
EXTENDS Validation, Json
Emit == (outcome # "pending") =>
  PrintT(<<"CASE", ToJson([args |-> case, outcome |-> outcome, derived |-> IF outcome = "ok" THEN Derived(case) ELSE [none |-> TRUE]])>>)
=============================================================================
