---------------------------- MODULE Gen_VectorAlg ----------------------------
EXTENDS VectorAlg, Json
Emit == PrintT(<<"CASE", ToJson([a |-> a, b |-> b, k |-> k, add |-> Add(a, b), sub |-> Sub(a, b), neg |-> Neg(a),
                                 scale |-> Scale(a, k), dot |-> Dot(a, b), norm2 |-> Norm2(a)])>>)
=============================================================================
