------------------------------ MODULE Integrator ------------------------------
(***************************************************************************)
(* Design model of the solver loop (TrajectoryCalc._integrate) over small  *)
(* integers: the CONTROLLER (loop test, wind sock, recorder, limit check)  *)
(* is the one of IntegratorOps; the ENVIRONMENT (how far the projectile    *)
(* advances, on which side of the sight line it is, super/subsonic, which  *)
(* limits it violates) is chosen nondeterministically every iteration, so  *)
(* TLC explores the controller against every trajectory shape.             *)
(*                                                                         *)
(* Decides the design-level clauses of C03 (one row per multiple), C04     *)
(* (limit verdict), C11 (twin recorders observe the same physics), C12     *)
(* (wind by segment) and C15 (event flags).                                *)
(*                                                                         *)
(* Named deviations of the pinned code are switchable so that TLC itself   *)
(* exhibits the counterexample:                                            *)
(*   LoopRule = "asis"  : while x <= MaxRange + MinStep                    *)
(*              "owed"  : ... or a multiple <= MaxRange is still owed      *)
(*   SockRule = "asis"  : the sock advances at most one segment per        *)
(*                        iteration                                        *)
(*              "strict": the segment is the number of boundaries reached  *)
(***************************************************************************)
EXTENDS IntegratorOps, TLC

CONSTANTS MaxRange, RecStep, MinStep, TimeStep, Extra,   \* the request (TimeStep = 0: none)
          MaxRange2, RecStep2,                           \* a second request observing the same shot (0 = none)
          Adv,                                           \* possible ground advances per iteration
          WindEnds,                                      \* sorted sequence of wind segment ends
          Limits,                                        \* limits the environment may violate
          MuzzleSide, BarrelAbove, StartSup,
          SupSet,                                        \* values sup may take after a step ({0, 1} = free)
          FreeSide,                                      \* FALSE: the side of the sight line never changes
          LoopRule, SockRule, MaxIt,
          MaxStall     \* physics assumption (downward gravity): after MaxStall iterations without ground advance
                       \* the projectile has fallen through a limit (0 = assumption off)

Req  == [rec |-> RecStep > 0, timed |-> TimeStep > 0, extra |-> Extra]
Req2 == [rec |-> RecStep2 > 0, timed |-> FALSE, extra |-> FALSE]

Passed(x, step) == IF step > 0 THEN (x \div step) + 1 ELSE 0         \* multiples k >= 0 with k*step <= x  (x >= 0)
SegOf(x) == Cardinality({i \in 1..Len(WindEnds) : WindEnds[i] <= x})
Max2(a, b) == IF a > b THEN a ELSE b
\* the multiple the code's catch-up loop records when it records by distance at x
CodeK(x, step, nextRec) == IF x = 0 THEN 0 ELSE Max2(nextRec, (x - 1) \div step)

VARIABLES x, it, side, phase, sup, viol, status, reason,     \* physics + outcome
          ctl, ctl2, seg,                                      \* controller state (two recorders, one sock)
          recIt, recIt2, lastFl, lastX, usedSeg, nUp, nDown, sideHist, supHist, aboveBefore, downBefore, maxAdv, stall   \* ghosts
vars == <<x, it, side, phase, sup, viol, status, reason, ctl, ctl2, seg,
          recIt, recIt2, lastFl, lastX, usedSeg, nUp, nDown, sideHist, supHist, aboveBefore, downBefore, maxAdv, stall>>

Obs(xx, i, sd, sp, step, tstep) ==
  [i |-> i, passLo |-> Passed(xx, step), passHi |-> Passed(xx, step),
   reachLo |-> i - tstep - 1, reachHi |-> i - tstep - 1,      \* design time base: one time unit per iteration
   xPos |-> xx > 0, side |-> sd, sup |-> sp, segLo |-> SegOf(xx), segHi |-> SegOf(xx), advLeStep |-> TRUE]

Init ==
  /\ x = 0 /\ it = 0 /\ side = MuzzleSide /\ phase = (IF MuzzleSide >= 0 THEN 1 ELSE 0)
  /\ sup = StartSup /\ viol = {} /\ status = "Running" /\ reason = "none"
  /\ ctl = InitCtl(MuzzleSide, BarrelAbove) /\ ctl2 = InitCtl(MuzzleSide, BarrelAbove) /\ seg = 0
  /\ recIt = <<>> /\ recIt2 = <<>> /\ lastFl = {} /\ lastX = 0 /\ usedSeg = 0
  /\ nUp = 0 /\ nDown = 0 /\ sideHist = <<MuzzleSide, MuzzleSide>> /\ supHist = <<0, 0>>
  /\ aboveBefore = <<FALSE, FALSE>> /\ downBefore = <<FALSE, FALSE>> /\ maxAdv = 0 /\ stall = 0

Continue(xx, c, rq, mr, stp) ==
  \/ xx <= mr + MinStep
  \/ (LoopRule = "owed" /\ Owed(c, rq, Passed(mr, stp)))

\* the sight-line side sequence of a concave trajectory: Below* (On|Above)* Below*
SideNext(ph) == IF ph = 0 THEN {<<-1, 0>>, <<1, 1>>} ELSE IF ph = 1 THEN {<<1, 1>>, <<-1, 2>>} ELSE {<<-1, 2>>}

Record(c, o, rq, stp) ==            \* flags and recorded multiple of one recorder, exact world
  LET fl == MustFlags(c, o, rq)
      k  == IF RangeMust(c, o, rq) THEN CodeK(x, stp, c.nextRec) ELSE -1
  IN [fl |-> fl, k |-> k, ctl |-> StepCtl(c, o, fl, k)]

Iteration ==
  /\ status = "Running" /\ it < MaxIt
  /\ Continue(x, ctl, Req, MaxRange, RecStep)
  /\ it' = it + 1
  /\ LET newSeg == IF SockRule = "strict" THEN SegOf(x)
                   ELSE IF seg < Len(WindEnds) /\ x >= WindEnds[seg + 1] THEN seg + 1 ELSE seg
         o  == Obs(x, it + 1, side, sup, RecStep, TimeStep)
         o2 == Obs(x, it + 1, side, sup, RecStep2, 0)
         r  == Record(ctl, o, Req, RecStep)
         r2 == Record(ctl2, o2, Req2, RecStep2)
     IN /\ seg' = newSeg /\ usedSeg' = newSeg /\ lastX' = x
        /\ ctl' = r.ctl /\ lastFl' = r.fl
        /\ recIt' = IF r.k >= 0 THEN Append(recIt, <<r.k, it + 1, x, lastX>>) ELSE recIt
        /\ ctl2' = IF RecStep2 > 0 /\ Continue(x, ctl2, Req2, MaxRange2, RecStep2) THEN r2.ctl ELSE ctl2
        /\ recIt2' = IF RecStep2 > 0 /\ Continue(x, ctl2, Req2, MaxRange2, RecStep2) /\ r2.k >= 0
                     THEN Append(recIt2, <<r2.k, it + 1, x, lastX>>) ELSE recIt2
        /\ nUp' = nUp + (IF "U" \in r.fl THEN 1 ELSE 0)
        /\ nDown' = nDown + (IF "D" \in r.fl THEN 1 ELSE 0)
        \* history ghosts, independent of the controller state: <<before this iteration, including it>>
        /\ sideHist' = <<sideHist[2], side>> /\ supHist' = <<supHist[2], sup>>
        /\ aboveBefore' = <<aboveBefore[2], aboveBefore[2] \/ (x > 0 /\ side >= 0)>>
        /\ downBefore' = <<downBefore[2], downBefore[2] \/ (x > 0 /\ side = -1 /\ (MuzzleSide >= 0 \/ aboveBefore[2]))>>
  \* ---- physics step: chosen by the environment, never by the controller ----
  /\ \E a \in Adv : x' = x + a /\ maxAdv' = Max2(maxAdv, a) /\ stall' = (IF a = 0 THEN stall + 1 ELSE 0)
  /\ IF FreeSide THEN \E sp \in SideNext(phase) : side' = sp[1] /\ phase' = sp[2] ELSE UNCHANGED <<side, phase>>
  /\ sup' \in SupSet
  /\ viol' \in SUBSET Limits
  /\ (MaxStall > 0 /\ stall' >= MaxStall) => viol' # {}
  /\ IF viol' # {} THEN status' = "RangeErr" /\ reason' = Verdict(viol')
                   ELSE UNCHANGED <<status, reason>>

LoopExit ==
  /\ status = "Running" /\ ~Continue(x, ctl, Req, MaxRange, RecStep)
  /\ status' = "Done"
  /\ UNCHANGED <<x, it, side, phase, sup, viol, reason, ctl, ctl2, seg, recIt, recIt2, lastFl, lastX, usedSeg,
                 nUp, nDown, sideHist, supHist, aboveBefore, downBefore, maxAdv, stall>>

Next == Iteration \/ LoopExit
Spec == Init /\ [][Next]_vars /\ WF_vars(Next)

---------------------------------------------------------------------------
RecordedKs(rs) == {rs[j][1] : j \in 1..Len(rs)}
K == Passed(MaxRange, RecStep)              \* multiples 0..K-1 are within the requested range

\* C03: a shot that reaches the range moving forward, with steps not longer than the record step, has exactly
\* one row for every multiple up to the range, in increasing order, at most one further multiple beyond it
C03_OneRowPerMultiple ==
  (status = "Done" /\ RecStep > 0 /\ maxAdv <= RecStep) =>
     /\ \A k \in 0..(K - 1) : k \in RecordedKs(recIt)
     /\ \A j \in 1..Len(recIt) : recIt[j][1] = j - 1                         \* once each, in order
     /\ Len(recIt) <= K + 1                                                  \* at most one beyond
     /\ (Len(recIt) = K + 1 => K * RecStep <= MaxRange + MinStep)
C03_FirstRowIsMuzzle == (it >= 1 /\ RecStep > 0) => (Len(recIt) >= 1 /\ recIt[1] = <<0, 1, 0, 0>>)
\* each multiple is recorded in the first iteration that runs at or beyond it, and within one step of it
C03_RecordedWhenReached ==
  \A j \in 1..Len(recIt) : recIt[j][3] >= recIt[j][1] * RecStep
                           /\ (maxAdv <= RecStep => recIt[j][3] < (recIt[j][1] + 1) * RecStep \/ recIt[j][3] = 0
                                                     \/ recIt[j][3] = (recIt[j][1] + 1) * RecStep)
\* C03 (time step): never more than TimeStep + 1 iterations without a RANGE record
C03_TimeGap == (TimeStep > 0 /\ status = "Running") => it + 1 - ctl.lastRecIt <= TimeStep + 1

\* C04: the verdict is the first violated limit in precedence order, and nothing runs after a violation
C04_ReasonIsFirstViolated == (status = "RangeErr") => (reason \in viol /\ reason = Verdict(viol))
C04_StopsAtViolation == (viol # {}) => status = "RangeErr"
C04_NoErrorWithoutViolation == (status = "RangeErr") => viol # {}

\* C12: the wind used in an iteration is that of the segment the projectile is in
C12_SegmentByPosition == (it >= 1) => usedSeg = SegOf(lastX)

\* C15: each crossing flagged once, exactly in the iteration that first observes it (history ghosts are
\* independent of the controller's own `seen` / `prevSup` bookkeeping)
C15_AtMostOnce == nUp <= 1 /\ nDown <= 1
C15_UpExactlyOnFirstCrossing ==
  (it >= 1) => (("U" \in lastFl) <=> (lastX > 0 /\ sideHist[2] >= 0 /\ MuzzleSide < 0 /\ ~aboveBefore[1]))
C15_DownExactlyOnFirstReturn ==
  (it >= 1 /\ (MuzzleSide >= 0 \/ BarrelAbove)) =>
     (("D" \in lastFl) <=> (lastX > 0 /\ sideHist[2] = -1 /\ (MuzzleSide >= 0 \/ aboveBefore[1]) /\ ~downBefore[1]))
C15_DownOnlyAfterUp == ("D" \in lastFl) => ("U" \in ctl.seen /\ nUp + (IF MuzzleSide >= 0 THEN 1 ELSE 0) >= 1)
C15_MachOnTransition == (it >= 1) => (("M" \in lastFl) <=> supHist = <<1, 0>>)
C15_SeenMonotone == [][ctl.seen \subseteq ctl'.seen]_vars

\* C11: whatever the request, a row at distance d is the point of the SAME polyline (through the iteration
\* points, which no recorder influences) at abscissa d: it is interpolated between the two consecutive
\* iteration points that bracket d.  Hence two requests report the same row at a common distance.
OnPolyline(rs, step) == \A j \in 1..Len(rs) : rs[j][4] <= rs[j][1] * step /\ rs[j][1] * step <= rs[j][3]
C11_RowsOnPolyline == OnPolyline(recIt, RecStep) /\ OnPolyline(recIt2, RecStep2)
\* with steps not longer than the record steps both requests have every common multiple within both ranges
C11_CommonRowsPresent ==
  (status = "Done" /\ RecStep2 > 0 /\ maxAdv <= RecStep /\ maxAdv <= RecStep2) =>
     \A d \in 0..MaxRange : (d <= MaxRange2 /\ d % RecStep = 0 /\ d % RecStep2 = 0) =>
         (\E j \in 1..Len(recIt) : recIt[j][1] * RecStep = d) /\ (\E j \in 1..Len(recIt2) : recIt2[j][1] * RecStep2 = d)

Terminates == <>(status # "Running")
=============================================================================
