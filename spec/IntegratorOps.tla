--------------------------- MODULE IntegratorOps ---------------------------
(***************************************************************************)
(* The controller of TrajectoryCalc._integrate as pure operators, shared   *)
(* by the design model (Integrator.tla: every environment behaviour over   *)
(* small integers), and the trace monitor (Trace_Integrator.tla: real      *)
(* shots, observations abstracted from hook logs).                         *)
(*                                                                         *)
(* One loop iteration of the code is                                       *)
(*   loop test -> wind update -> record? -> physics step -> limit check    *)
(* and the controller's reaction to the iteration's OBSERVATION o is a set *)
(* of flags (RANGE / UP / DOWN / MACH), the multiple recorded, the wind    *)
(* segment used and (after the step) the verdict on the three limits.      *)
(*                                                                         *)
(* An observation carries every threshold predicate as an interval         *)
(* [lo, hi]: for exact (integer) worlds lo = hi; for float traces the      *)
(* projection widens the interval by a few ulps and the controller must    *)
(* then accept either reaction.                                            *)
(*   o.passLo/passHi : number of multiples k >= 0 of the record step with  *)
(*                     k*step <= x                                         *)
(*   o.reachLo/Hi    : largest iteration j with t(now) > t(j) + timeStep   *)
(*                     (-1 if none)                                        *)
(*   o.xPos          : x > 0                                               *)
(*   o.side          : -1 below the sight line, +1 at or above, 0 unknown  *)
(*   o.sup           : 1 air... speed/mach > 1, 0 not, 2 unknown           *)
(*   o.segLo/segHi   : number of wind boundaries <= x                      *)
(***************************************************************************)
EXTENDS Integers, Sequences, FiniteSets

Flags == {"R", "U", "D", "M"}
LimitOrder == <<"Vel", "Drop", "Alt">>       \* precedence of the limit verdict

\* request: [rec |-> BOOLEAN (a positive record step), timed |-> BOOLEAN (a positive time step),
\*           extra |-> BOOLEAN (extra data: event rows are emitted)]
FilterOf(req) == IF req.extra THEN Flags ELSE {"R"}

\* controller state
InitCtl(muzzleSide, barrelAbove) ==
  [nextRec   |-> 0,        \* index of the next multiple owed
   lastRecIt |-> 1,        \* iteration of the last RANGE record (time base of the time step); iteration 1 is t = 0
   seen      |-> IF muzzleSide >= 0 THEN {"U"} ELSE IF ~barrelAbove THEN {"D"} ELSE {},
   prevSup   |-> 0]

\* ---- which flags MUST / MAY be raised in an iteration ----
RangeMust(st, o, req) == req.rec /\ o.passLo > st.nextRec
RangeMay(st, o, req)  == req.rec /\ o.passHi > st.nextRec
TimeMust(st, o, req)  == req.timed /\ st.lastRecIt <= o.reachLo
TimeMay(st, o, req)   == req.timed /\ st.lastRecIt <= o.reachHi
UpMust(st, o)   == o.xPos /\ "U" \notin st.seen /\ o.side = 1
UpMay(st, o)    == o.xPos /\ "U" \notin st.seen /\ o.side >= 0
DownMust(st, o) == o.xPos /\ "U" \in st.seen /\ "D" \notin st.seen /\ o.side = -1
DownMay(st, o)  == o.xPos /\ "U" \in st.seen /\ "D" \notin st.seen /\ o.side <= 0
MachMust(st, o) == st.prevSup = 1 /\ o.sup = 0
MachMay(st, o)  == st.prevSup \in {1, 2} /\ o.sup \in {0, 2}

MustFlags(st, o, req) ==
  \* RANGE is raised by a distance hit, else by the time step: either way once one of them is certain
  (IF RangeMust(st, o, req) \/ TimeMust(st, o, req) THEN {"R"} ELSE {}) \cup
  (IF UpMust(st, o) THEN {"U"} ELSE {}) \cup (IF DownMust(st, o) THEN {"D"} ELSE {}) \cup
  (IF MachMust(st, o) THEN {"M"} ELSE {})
MayFlags(st, o, req) ==
  (IF RangeMay(st, o, req) \/ TimeMay(st, o, req) THEN {"R"} ELSE {}) \cup
  (IF UpMay(st, o) THEN {"U"} ELSE {}) \cup (IF DownMay(st, o) THEN {"D"} ELSE {}) \cup
  (IF MachMay(st, o) THEN {"M"} ELSE {})

\* a row is emitted exactly when a raised flag passes the request's filter
Emits(fl, req) == (fl \cap FilterOf(req)) # {}

\* the multiple recorded by a distance hit: with ground advance <= record step it is the one owed
\* (the code's catch-up loop may skip multiples only when a single step spans more than one)
KAdmissible(st, o, k) == IF o.advLeStep THEN k = st.nextRec ELSE k >= st.nextRec /\ k < o.passHi

\* state after the iteration, following the flags fl and recorded multiple k (k = -1: no distance record)
StepCtl(st, o, fl, k) ==
  [nextRec   |-> IF "R" \in fl /\ k >= 0 THEN k + 1 ELSE st.nextRec,
   lastRecIt |-> IF "R" \in fl THEN o.i ELSE st.lastRecIt,
   seen      |-> st.seen \cup (fl \cap {"U", "D"}),
   prevSup   |-> o.sup]

\* ---- wind ----
\* the segment whose wind must be used at x: the number of boundaries already reached (= Len => no wind)
SegAdmissible(o, s) == o.segLo <= s /\ s <= o.segHi

\* ---- limits (after the step) ----
RECURSIVE FirstIn(_, _)
FirstIn(ord, S) == IF ord = <<>> THEN "none" ELSE IF Head(ord) \in S THEN Head(ord) ELSE FirstIn(Tail(ord), S)
Verdict(viol) == FirstIn(LimitOrder, viol)
\* reason r is admissible when r may be violated and no limit of higher precedence is definitely violated
Before(r) == CASE r = "Vel" -> {} [] r = "Drop" -> {"Vel"} [] r = "Alt" -> {"Vel", "Drop"} [] OTHER -> {}
ReasonAdmissible(r, violLo, violHi) == r \in violHi /\ (Before(r) \cap violLo) = {}

\* ---- loop ----
\* multiples 0 .. K-1 lie within the requested range (K = number of multiples <= MaxRange)
Owed(st, req, K) == req.rec /\ st.nextRec < K
=============================================================================
