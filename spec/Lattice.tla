------------------------------- MODULE Lattice -------------------------------
(***************************************************************************)
(* The exact "lattice world" of the solver loop (DESIGN §1.1, M1): in a    *)
(* vacuum (no drag), with maximum step 1 ft (calc_step 1/2 ft), muzzle     *)
(* velocity V = 4 fps along a level barrel and head / tail winds chosen so *)
(* that the air-relative speed is 1/2, 1, 2, 4 or 8 fps, the real          *)
(* Calculator.fire advances on an exact dyadic lattice:                    *)
(*      dt = calc_step / max(1, |V - W|)    x += V dt    t += dt           *)
(* and, with gravity g = -1/16 ft/s^2 while the air speed stays <= 1       *)
(* (dt = 1/2):   vy += g dt = -1/32      y += vy dt.                       *)
(* This module computes, with integer arithmetic, the COMPLETE result of   *)
(* fire for such a request - every row (distance, time, flags), the        *)
(* RangeError reason and last row, the tail row - using the controller     *)
(* operators of IntegratorOps; the binding replays every scenario into the *)
(* real Calculator.fire and compares exactly (no tolerance).               *)
(*   units: x in 1/4 ft, t in 1/16 s, vy in 1/32 ft/s, y in 1/64 ft.       *)
(***************************************************************************)
EXTENDS IntegratorOps, TLC

CONSTANTS WindMenus,     \* set of wind lists: sequences of <<wind speed in half-fps (tail +, head -), end in quarter feet>>
          Ranges, Steps, \* requested range and record step, quarter feet
          TimeSteps,     \* time step in sixteenths of a second (0 = none)
          Gravs,         \* 0: no gravity; 1: g = -1/16 ft/s^2 (only with winds keeping the air speed <= 1)
          Sights,        \* sight height in 1/64 ft (y0 = -sight): positive = muzzle below the sight line
          DropLims, AltLims,   \* cMaximumDrop / cMinimumAltitude in 1/64 ft
          VelLims,       \* cMinimumVelocity in fps: 0 or 5 (5 > V: violated by the first step)
          MaxIt

V2 == 8                  \* muzzle velocity 4 fps, in half-fps
MinStep4 == 2            \* min(calc_step, record step) = 1/2 ft for every Steps >= 2

Abs(x) == IF x < 0 THEN -x ELSE x
Air2(w2) == Abs(V2 - w2)
Dt16(w2) == IF Air2(w2) <= 2 THEN 8 ELSE 16 \div Air2(w2)          \* 0.5 / max(1, air speed)
Adv4(w2) == (V2 * Dt16(w2)) \div 8                                 \* V dt, in quarter feet
WindOK(ws) == \A i \in DOMAIN ws : Air2(ws[i][1]) \in {1, 2, 4, 8, 16}

SegOf(ws, x4) == Cardinality({i \in DOMAIN ws : ws[i][2] <= x4})
WindAt(ws, x4) == IF SegOf(ws, x4) < Len(ws) THEN ws[SegOf(ws, x4) + 1][1] ELSE 0
Passed(x4, step4) == (x4 \div step4) + 1
Max2(a, b) == IF a > b THEN a ELSE b

VARIABLES sc,        \* the scenario (constant after Init)
          x, t, vy, y, it, ctl, rows, status, reason, prevX, prevT, prevY
vars == <<sc, x, t, vy, y, it, ctl, rows, status, reason, prevX, prevT, prevY>>

Scenarios == {s \in [winds : WindMenus, range : Ranges, step : Steps, tstep : TimeSteps, grav : Gravs, sight : Sights,
                     drop : DropLims, alt : AltLims, vel : VelLims, extra : BOOLEAN] :
                 /\ WindOK(s.winds)
                 \* gravity only where the air speed is 1/2 fps over the whole flight (dt = 1/2 exactly)
                 /\ (s.grav = 1 => /\ Len(s.winds) >= 1 /\ s.winds[Len(s.winds)][2] >= 100000
                                   /\ \A i \in DOMAIN s.winds : Air2(s.winds[i][1]) = 1)}

Req(s) == [rec |-> TRUE, timed |-> s.tstep > 0, extra |-> s.extra]

Init == /\ sc \in Scenarios
        /\ x = 0 /\ t = 0 /\ vy = 0 /\ y = -sc.sight /\ it = 0
        /\ ctl = InitCtl(IF -sc.sight >= 0 THEN 1 ELSE -1, TRUE)       \* barrel level = not below the level sight line
        /\ rows = <<>> /\ status = "Running" /\ reason = "none" /\ prevX = 0 /\ prevT = 0 /\ prevY = -sc.sight

Continue == x <= sc.range + MinStep4 \/ Owed(ctl, Req(sc), Passed(sc.range, sc.step))

\* iterations (1-based) j with t(now) > t(j) + tstep: times are strictly increasing, t(j) is recorded in ctl via lastRecIt only,
\* so the lattice keeps the time of the last record explicitly instead of the reach interval
Obs(lastRecT) ==
  [i |-> it + 1, passLo |-> Passed(x, sc.step), passHi |-> Passed(x, sc.step),
   reachLo |-> IF sc.tstep > 0 /\ t > lastRecT + sc.tstep THEN ctl.lastRecIt ELSE 0,
   reachHi |-> IF sc.tstep > 0 /\ t > lastRecT + sc.tstep THEN ctl.lastRecIt ELSE 0,
   xPos |-> x > 0, side |-> IF y >= 0 THEN 1 ELSE -1, sup |-> 0, segLo |-> 0, segHi |-> 0, advLeStep |-> TRUE]

LastRecT == IF \E j \in DOMAIN rows : "R" \in rows[j].fl THEN rows[CHOOSE j \in DOMAIN rows : "R" \in rows[j].fl /\ \A k \in DOMAIN rows : ("R" \in rows[k].fl) => k <= j].tAt ELSE 0

CodeK == IF x = 0 THEN 0 ELSE Max2(ctl.nextRec, (x - 1) \div sc.step)

Iteration ==
  /\ status = "Running" /\ it < MaxIt /\ Continue
  /\ LET o    == Obs(LastRecT)
         fl   == MustFlags(ctl, o, Req(sc))
         dist == RangeMust(ctl, o, Req(sc))
         k    == IF dist THEN CodeK ELSE -1
         emit == Emits(fl, Req(sc))
         \* a distance record is interpolated to k*step between the previous and the current point; any other row is the current point
         rx   == IF dist /\ x > prevX THEN k * sc.step ELSE x
         \* V = 4 fps and x, t in quarter feet / sixteenths: t16 = x4 along the whole lattice, also for interpolated points
         rt   == IF dist /\ x > prevX THEN prevT + ((t - prevT) * (rx - prevX)) \div (x - prevX) ELSE t
         \* height (1/512 ft) and vertical velocity (1/256 ft/s) of the row: interpolated the same way (the ground advance
         \* divides 8 quarter feet, so both divisions are exact)
         pvy  == IF sc.grav = 1 /\ it > 0 THEN vy + 1 ELSE vy
         itp  == dist /\ x > prevX
         ry   == IF itp THEN prevY * 8 + ((y - prevY) * 8 * (rx - prevX)) \div (x - prevX) ELSE y * 8
         rvy  == IF itp THEN pvy * 8 + ((vy - pvy) * 8 * (rx - prevX)) \div (x - prevX) ELSE vy * 8
         w2   == WindAt(sc.winds, x)
         dt   == Dt16(w2)
         vy2  == vy - (IF sc.grav = 1 THEN 1 ELSE 0)                 \* dt = 1/2 whenever gravity is on
         y2   == y + (IF sc.grav = 1 THEN vy2 ELSE 0)
         x2   == x + Adv4(w2)
         t2   == t + dt
         viol == (IF sc.vel > 4 THEN {"Vel"} ELSE {}) \cup (IF y2 < sc.drop THEN {"Drop"} ELSE {}) \cup (IF y2 < sc.alt THEN {"Alt"} ELSE {})
     IN /\ ctl' = StepCtl(ctl, o, fl, k)
        /\ rows' = (IF emit THEN Append(rows, [x |-> rx, t |-> rt, fl |-> fl, tAt |-> t, term |-> FALSE, y |-> ry, vy |-> rvy]) ELSE rows)
                   \o (IF viol # {} THEN <<[x |-> x2, t |-> t2, fl |-> fl, tAt |-> t2, term |-> TRUE, y |-> y2 * 8, vy |-> vy2 * 8]>> ELSE <<>>)
        /\ prevX' = x /\ prevT' = t /\ prevY' = y
        /\ x' = x2 /\ t' = t2 /\ vy' = vy2 /\ y' = y2 /\ it' = it + 1
        /\ IF viol # {} THEN status' = "RangeErr" /\ reason' = Verdict(viol) ELSE UNCHANGED <<status, reason>>
  /\ UNCHANGED sc

Finish ==
  /\ status = "Running" /\ ~Continue
  /\ status' = "Done"
  \* at least two rows: the state after the loop is appended when fewer than two RANGE rows were recorded (event rows do
  \* not count: the extra-data result keeps the closing row of the plain one)
  /\ rows' = IF Cardinality({j \in DOMAIN rows : "R" \in rows[j].fl}) < 2 THEN Append(rows, [x |-> x, t |-> t, fl |-> {}, tAt |-> t, term |-> FALSE, y |-> y * 8, vy |-> vy * 8]) ELSE rows
  /\ UNCHANGED <<sc, x, t, vy, y, it, ctl, reason, prevX, prevT, prevY>>

Next == Iteration \/ Finish
Spec == Init /\ [][Next]_vars /\ WF_vars(Next)

---------------------------------------------------------------------------
K == Passed(sc.range, sc.step)
RangeRows == SelectSeq(rows, LAMBDA r : "R" \in r.fl /\ ~r.term)
\* C03 in the lattice: exactly one row per multiple up to the range (at most one beyond), in order, at the exact distance
L_C03_OneRowPerMultiple ==
  (status = "Done" /\ sc.tstep = 0 /\ sc.step >= 8) =>          \* record step >= the largest ground advance (2 ft)
     /\ Len(RangeRows) \in {K, K + 1}
     /\ \A j \in 1..Len(RangeRows) : RangeRows[j].x = (j - 1) * sc.step
L_C03_TimesIncrease == \A j \in 1..(Len(rows) - 1) : rows[j].t <= rows[j + 1].t
\* C04: the verdict names a limit the terminal row violates, in precedence order; earlier rows are within limits
L_C04_Verdict == status = "RangeErr" => (rows[Len(rows)].term /\ reason \in {"Vel", "Drop", "Alt"})
L_C04_Terminates == <>(status # "Running")
L_TwoRows == status # "Running" => Len(rows) >= 2
\* without gravity every row lies at the muzzle height; with it the trajectory never rises and only sinks
L_RowHeights == \A j \in DOMAIN rows : /\ rows[j].y <= -sc.sight * 8 /\ rows[j].vy <= 0
                                       /\ (sc.grav = 0 => rows[j].y = -sc.sight * 8 /\ rows[j].vy = 0)
                                       /\ (j > 1 => rows[j].y <= rows[j - 1].y)
=============================================================================
