------------------------------- MODULE Lookup -------------------------------
(***************************************************************************)
(* C20 - trajectory look-ups return the first row satisfying the query.    *)
(*                                                                         *)
(* The library answers "first row with distance/time >= q" by bisection    *)
(* (helpers.find_first_index_satisfying_monotonic_condition,               *)
(* helpers.find_nearest_index_satisfying_monotonic_condition) or by a      *)
(* generator scan (HitResult.index_at_distance), and the apex by a         *)
(* bisection on the height column.  This module specifies                  *)
(*   - the REQUIRED answer, written as the statement reads (sequential     *)
(*     scan / arg-min with earlier row on ties / sentinel), and            *)
(*   - the search procedures as small-step state machines (one Probe per   *)
(*     loop iteration of bisect_left / the apex loop),                     *)
(* and TLC checks that every run of the procedures on every small          *)
(* non-decreasing trajectory ends in the required answer.                  *)
(* All numbers are doubled (half-integer queries): a row value v is 2v.    *)
(***************************************************************************)
EXTENDS Integers, Sequences, FiniteSets, TLC

CONSTANTS MaxLen,      \* longest trajectory
          MaxVal,      \* row values are in 0..MaxVal (doubled on use)
          Devs,        \* allowed deviations (doubled) for the nearest-time variant
          TieRule      \* "earliest": among rows with equal time the nearest-variant returns the first
                       \* "asis"    : the pinned code's rule (named deviation: returns the bisect
                       \*             neighbour, i.e. the LAST of a run of equal times) - TLC refutes it

Ops == {"dist", "time", "near", "apex"}

NonDec(f) == \A i \in 1..(Len(f) - 1) : f[i] <= f[i + 1]
SeqsUpTo(n) == UNION {[1..k -> 0..MaxVal] : k \in 0..n}
NonDecSeqs == {f \in SeqsUpTo(MaxLen) : NonDec(f)}

\* single-peaked height sequences: strictly up, then (optionally one plateau step at the peak) strictly down
Peaked(f) == \E p \in 1..Len(f) :
                /\ \A i \in 1..(p - 1) : f[i] < f[i + 1]
                /\ \A i \in p..(Len(f) - 1) : (f[i] > f[i + 1]) \/ (i = p /\ f[i] = f[i + 1])
                /\ \A i \in (p + 1)..(Len(f) - 1) : f[i] > f[i + 1]
PeakedSeqs == {f \in SeqsUpTo(MaxLen + 1) : Len(f) = 0 \/ Peaked(f)}

Queries == (-2)..(2 * MaxVal + 2)      \* doubled: -1 .. MaxVal+1 in half steps

Abs(x) == IF x < 0 THEN -x ELSE x
Min(S) == CHOOSE x \in S : \A y \in S : x <= y

---------------------------------------------------------------------------
(* Required answers (0-based index, -1 = "no row qualifies").              *)

\* exactly what a sequential scan finds
FirstAtLeast(col, q) ==
  IF \E i \in 1..Len(col) : 2 * col[i] >= q
  THEN Min({i \in 1..Len(col) : 2 * col[i] >= q}) - 1
  ELSE -1

\* row minimising |time - q|, earlier row on ties, subject to the allowed deviation
Nearest(col, q, dev) ==
  IF Len(col) = 0 THEN -1
  ELSE LET best == Min({Abs(2 * col[i] - q) : i \in 1..Len(col)})
           idx  == Min({i \in 1..Len(col) : Abs(2 * col[i] - q) = best})
       IN IF best <= dev THEN idx - 1 ELSE -1

\* the highest row(s) of a single-peaked trajectory
ApexSet(h) ==
  IF Len(h) = 0 THEN {-1}
  ELSE {i - 1 : i \in {j \in 1..Len(h) : \A k \in 1..Len(h) : h[k] <= h[j]}}

Required(op, col, q, dev) ==
  CASE op = "dist" -> {FirstAtLeast(col, q)}
    [] op = "time" -> {FirstAtLeast(col, q)}
    [] op = "near" -> {Nearest(col, q, dev)}
    [] op = "apex" -> ApexSet(col)

---------------------------------------------------------------------------
(* The search procedures, one step per loop iteration.                     *)

VARIABLES op, col, q, dev, lo, hi, pc, res
vars == <<op, col, q, dev, lo, hi, pc, res>>

Init ==
  /\ op \in Ops
  /\ col \in (IF op = "apex" THEN PeakedSeqs ELSE NonDecSeqs)
  /\ q \in (IF op = "apex" THEN {0} ELSE IF op = "dist" THEN Queries ELSE {x \in Queries : x >= 0})
  /\ dev \in (IF op = "near" THEN Devs ELSE {0})
  /\ lo = 0
  /\ hi = IF op = "apex" THEN Len(col) - 1 ELSE Len(col)
  /\ pc = "search"
  /\ res = -2

\* bisect_left(a, x, lo, hi) on the predicate/value column (0-based lo, hi)
BisectProbe ==
  /\ pc = "search" /\ op # "apex" /\ lo < hi
  /\ LET mid == (lo + hi) \div 2 IN
       IF 2 * col[mid + 1] < q            \* a[mid] < x  (for predicates: False < True)
       THEN lo' = mid + 1 /\ hi' = hi
       ELSE hi' = mid /\ lo' = lo
  /\ UNCHANGED <<op, col, q, dev, pc, res>>

BisectDone ==
  /\ pc = "search" /\ op \in {"dist", "time"} /\ lo >= hi
  /\ res' = IF lo >= Len(col) THEN -1 ELSE IF 2 * col[lo + 1] >= q THEN lo ELSE -1
  /\ pc' = "done"
  /\ UNCHANGED <<op, col, q, dev, lo, hi>>

\* neighbour comparison of the nearest-time variant; an empty trajectory has no neighbour
NearDone ==
  /\ pc = "search" /\ op = "near" /\ lo >= hi
  /\ LET n == Len(col)
         cand == IF n = 0 THEN -1
                 ELSE IF lo = 0 THEN 0
                 ELSE IF lo = n THEN n - 1
                 ELSE IF Abs(2 * col[lo] - q) <= Abs(2 * col[lo + 1] - q) THEN lo - 1 ELSE lo
         first == IF cand < 0 \/ TieRule = "asis" THEN cand
                  ELSE Min({j \in 0..cand : col[j + 1] = col[cand + 1]})
     IN res' = IF first >= 0 /\ Abs(2 * col[first + 1] - q) <= dev THEN first ELSE -1
  /\ pc' = "done"
  /\ UNCHANGED <<op, col, q, dev, lo, hi>>

ApexProbe ==
  /\ pc = "search" /\ op = "apex" /\ lo < hi
  /\ LET mid == (lo + hi) \div 2 IN
       IF col[mid + 1] < col[mid + 2]
       THEN lo' = mid + 1 /\ hi' = hi
       ELSE hi' = mid /\ lo' = lo
  /\ UNCHANGED <<op, col, q, dev, pc, res>>

ApexDone ==
  /\ pc = "search" /\ op = "apex" /\ lo >= hi
  /\ res' = IF Len(col) = 0 THEN -1 ELSE lo
  /\ pc' = "done"
  /\ UNCHANGED <<op, col, q, dev, lo, hi>>

Next == BisectProbe \/ BisectDone \/ NearDone \/ ApexProbe \/ ApexDone

Spec == Init /\ [][Next]_vars /\ WF_vars(Next)

---------------------------------------------------------------------------
(* Properties.                                                             *)

TypeOK == /\ pc \in {"search", "done"}
          /\ lo \in 0..(MaxLen + 1) /\ hi \in (-1)..(MaxLen + 1)

\* C20: the search ends in exactly the row a sequential scan / arg-min finds, or the sentinel
C20_ResultIsRequired == pc = "done" => res \in Required(op, col, q, dev)
\* never an index outside the trajectory
C20_ResultInRange == pc = "done" => res \in (-1)..(Len(col) - 1)
\* bisection keeps the answer inside [lo, hi]
C20_BisectBracket ==
  (pc = "search" /\ op \in {"dist", "time"}) =>
     LET r == FirstAtLeast(col, q) IN IF r = -1 THEN hi = Len(col) ELSE lo <= r /\ r <= hi
C20_Terminates == <>(pc = "done")
=============================================================================
