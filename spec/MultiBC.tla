------------------------------- MODULE MultiBC -------------------------------
(***************************************************************************)
(* C14 - multi-BC drag models realise the interpolated BC and leave their  *)
(* inputs intact.                                                          *)
(*                                                                         *)
(* A drag table is a sequence of DATA POINT OBJECTS (identity matters: a   *)
(* model's table can be handed to another constructor by reference).  The  *)
(* heap maps a data-point id to its drag multiplier relative to the        *)
(* standard table value of its node, an exact rational <<n, d>> (1 for a   *)
(* fresh copy of the standard table).  Nodes are at Mach 0, 1, .., G; BC   *)
(* points are at doubled positions 0..2G (so they may fall between nodes). *)
(*                                                                         *)
(* Build(points, source) makes a model whose multiplier at each node is    *)
(*        source multiplier * modelBC / BCat(points, node)                 *)
(* where BCat is the piecewise-linear interpolation of the points in Mach, *)
(* clamped to the end points, independent of the order the points are      *)
(* given in (modelBC = 1 here).                                            *)
(*   AllocRule = "fresh" : the model gets NEW data-point objects           *)
(*               "asis"  : (deviation, pinned code) data points passed in  *)
(*                         by reference are divided IN PLACE - TLC refutes *)
(*                         C14_NoInputMutation / C14_SharedModelUnaffected *)
(***************************************************************************)
EXTENDS Integers, Sequences, FiniteSets, TLC

CONSTANTS G,            \* table nodes at Mach 0..G
          PointLists,   \* the BC point lists tried: sequences of <<bc, doubled Mach position>>
          Stride,       \* spacing of the table's Mach nodes (node k-1 at Mach Stride * (k-1)): with Stride = 2 several BC
                        \* points fit strictly between two neighbouring table rows
          AllocRule, MaxBuilds

Abs(x) == IF x < 0 THEN -x ELSE x
RECURSIVE GCD(_, _)
GCD(a, b) == IF b = 0 THEN a ELSE GCD(b, a % b)
Norm(r) == LET g == GCD(Abs(r[1]), Abs(r[2])) s == IF r[2] < 0 THEN -1 ELSE 1
           IN IF r[1] = 0 THEN <<0, 1>> ELSE <<s * (r[1] \div g), s * (r[2] \div g)>>
RMul(a, b) == Norm(<<a[1] * b[1], a[2] * b[2]>>)
RDiv(a, b) == Norm(<<a[1] * b[2], a[2] * b[1]>>)

\* ---- the interpolation law (the statement), order-insensitive by construction ----
Positions(pts) == {pts[i][2] : i \in DOMAIN pts}
BcOf(pts, p) == LET i == CHOOSE j \in DOMAIN pts : pts[j][2] = p IN pts[i][1]
MinP(S) == CHOOSE x \in S : \A y \in S : x <= y
MaxP(S) == CHOOSE x \in S : \A y \in S : x >= y
\* BC at doubled position x
BCat(pts, x) ==
  LET P == Positions(pts) IN
  IF x <= MinP(P) THEN <<BcOf(pts, MinP(P)), 1>>
  ELSE IF x >= MaxP(P) THEN <<BcOf(pts, MaxP(P)), 1>>
  ELSE LET lo == MaxP({p \in P : p <= x})
           hi == MinP({p \in P : p > x})
           b0 == BcOf(pts, lo) b1 == BcOf(pts, hi)
       IN Norm(<<b0 * (hi - lo) + (b1 - b0) * (x - lo), hi - lo>>)
Law(pts) == [k \in 1..(G + 1) |-> BCat(pts, 2 * Stride * (k - 1))]          \* BC at node k-1

\* ---- heap of data points and models ----
VARIABLES heap,      \* data-point id -> multiplier
          models,    \* sequence of [pts, src (0 = standard table, else index of the source model), ids]
          builds
vars == <<heap, models, builds>>

Init == heap = <<>> /\ models = <<>> /\ builds = 0

NodeCount == G + 1
FreshIds == [k \in 1..NodeCount |-> Len(heap) + k]

Build(pts, src) ==
  /\ builds < MaxBuilds /\ builds' = builds + 1
  /\ src \in 0..Len(models)
  /\ LET law  == Law(pts)
         base == [k \in 1..NodeCount |-> IF src = 0 THEN <<1, 1>> ELSE heap[models[src].ids[k]]]
         new  == [k \in 1..NodeCount |-> RDiv(base[k], law[k])]
     IN IF src = 0 \/ AllocRule = "fresh"
        THEN /\ heap' = heap \o new
             /\ models' = Append(models, [pts |-> pts, src |-> src, ids |-> FreshIds])
        ELSE \* in place: the source model's own data points are overwritten and shared
             /\ heap' = [i \in DOMAIN heap |->
                           IF \E k \in 1..NodeCount : models[src].ids[k] = i
                           THEN new[CHOOSE k \in 1..NodeCount : models[src].ids[k] = i] ELSE heap[i]]
             /\ models' = Append(models, [pts |-> pts, src |-> src, ids |-> models[src].ids])

Next == \E pts \in PointLists, src \in 0..Len(models) : Build(pts, src)
Spec == Init /\ [][Next]_vars

---------------------------------------------------------------------------
Mult(mdl) == [k \in 1..NodeCount |-> heap[mdl.ids[k]]]
\* a model built from the standard table has effective BC = the law:  multiplier = 1 / BCat
C14_RealisesLaw == \A i \in 1..Len(models) : models[i].src = 0 =>
                     \A k \in 1..NodeCount : Mult(models[i])[k] = RDiv(<<1, 1>>, Law(models[i].pts)[k])
\* building never alters a data point that existed before
C14_NoInputMutation == [][\A i \in DOMAIN heap : heap'[i] = heap[i]]_vars
\* hence a model sharing inputs with a later build keeps its multipliers
C14_SharedModelUnaffected == [][\A i \in 1..Len(models) : Mult(models[i])' = Mult(models[i])]_vars
\* building twice from the same inputs gives the same model
C14_Idempotent == \A i, j \in 1..Len(models) :
   (models[i].pts = models[j].pts /\ models[i].src = 0 /\ models[j].src = 0) => Mult(models[i]) = Mult(models[j])
\* the law does not depend on the order in which the points are given
C14_OrderInsensitive == \A p, r \in PointLists :
   ({p[i] : i \in DOMAIN p} = {r[i] : i \in DOMAIN r}) => Law(p) = Law(r)
=============================================================================
