------------------------------- MODULE Output -------------------------------
(***************************************************************************)
(* How results are SHOWN (beyond the listed properties; the complement of  *)
(* C07: preferences choose how output is read, never what it is).          *)
(*                                                                         *)
(* State: the preferred-unit slots of Prefs.tla.  A trajectory row has 16  *)
(* columns; a quantity column is shown in the unit its slot holds NOW (at  *)
(* the time of the call, not of the computation), plain columns as they    *)
(* are.  A number in a unit is printed with the unit's digits and symbol   *)
(* (DisplayTable, transcribed from the pinned tree's documented table).    *)
(*   Show(col)        = <<unit, "value of the column in that unit">>       *)
(*   in_def_units()   = the numbers of Show over all columns               *)
(*   formatted()      = "<number, fixed, `digits` decimals> <symbol>"      *)
(*   str(quantity)    = "<round(number, digits)><symbol>" in ITS display   *)
(*                      unit (no preference involved)                      *)
(***************************************************************************)
EXTENDS Prefs

\* <<column, dimension ("" = plain), slot>> in tuple order
Columns == <<
  <<"time", "", "">>, <<"distance", "distance", "distance">>, <<"velocity", "velocity", "velocity">>, <<"mach", "", "">>,
  <<"height", "distance", "drop">>, <<"target_drop", "distance", "drop">>, <<"drop_adj", "angular", "adjustment">>,
  <<"windage", "distance", "drop">>, <<"windage_adj", "angular", "adjustment">>, <<"look_distance", "distance", "distance">>,
  <<"angle", "angular", "angular">>, <<"density_factor", "", "">>, <<"drag", "", "">>, <<"energy", "energy", "energy">>,
  <<"ogw", "weight", "ogw">>, <<"flag", "", "">> >>

\* plain columns: fixed formats of formatted()  (printf-style, bound literally)
PlainFormat == [time |-> "%.3f s", mach |-> "%.2f mach", density_factor |-> "%.3e", drag |-> "%.3f", flag |-> "name"]

\* <<unit, digits, symbol as code points>>
DisplayTable == <<
  <<"Radian", 6, <<114, 97, 100>>>>, <<"Degree", 4, <<176>>>>, <<"MOA", 2, <<77, 79, 65>>>>, <<"Mil", 3, <<109, 105, 108>>>>,
  <<"MRad", 2, <<109, 114, 97, 100>>>>, <<"Thousandth", 2, <<116, 104, 115>>>>,
  <<"InchesPer100Yd", 2, <<105, 110, 47, 49, 48, 48, 121, 100>>>>, <<"CmPer100m", 2, <<99, 109, 47, 49, 48, 48, 109>>>>,
  <<"OClock", 2, <<104>>>>,
  <<"Inch", 1, <<105, 110, 99, 104>>>>, <<"Foot", 2, <<102, 116>>>>, <<"Yard", 1, <<121, 100>>>>, <<"Mile", 3, <<109, 105>>>>,
  <<"NauticalMile", 3, <<110, 109>>>>, <<"Millimeter", 3, <<109, 109>>>>, <<"Centimeter", 3, <<99, 109>>>>, <<"Meter", 1, <<109>>>>,
  <<"Kilometer", 3, <<107, 109>>>>, <<"Line", 3, <<108, 110>>>>,
  <<"FootPound", 0, <<102, 116, 183, 108, 98>>>>, <<"Joule", 0, <<74>>>>,
  <<"MmHg", 0, <<109, 109, 72, 103>>>>, <<"InHg", 6, <<105, 110, 72, 103>>>>, <<"Bar", 2, <<98, 97, 114>>>>,
  <<"hPa", 4, <<104, 80, 97>>>>, <<"PSI", 4, <<112, 115, 105>>>>,
  <<"Fahrenheit", 1, <<176, 70>>>>, <<"Celsius", 1, <<176, 67>>>>, <<"Kelvin", 1, <<176, 75>>>>, <<"Rankin", 1, <<176, 82>>>>,
  <<"MPS", 0, <<109, 47, 115>>>>, <<"KMH", 1, <<107, 109, 47, 104>>>>, <<"FPS", 1, <<102, 116, 47, 115>>>>,
  <<"MPH", 1, <<109, 112, 104>>>>, <<"KT", 1, <<107, 116>>>>,
  <<"Grain", 1, <<103, 114>>>>, <<"Ounce", 1, <<111, 122>>>>, <<"Gram", 1, <<103>>>>, <<"Pound", 0, <<108, 98>>>>,
  <<"Kilogram", 3, <<107, 103>>>>, <<"Newton", 3, <<78>>>> >>

DisplayedUnits == {DisplayTable[i][1] : i \in DOMAIN DisplayTable}

\* the unit a column is shown in, in the current state
ShownUnit(i) == IF Columns[i][2] = "" THEN "plain" ELSE pref[Columns[i][3]]

\* ---- properties of the design -------------------------------------------------------------------------------
\* every quantity column names an existing slot of its own dimension
O_ColumnsTyped == \A i \in DOMAIN Columns : Columns[i][2] # "" => (Columns[i][3] \in SlotSet /\ DimOf(Columns[i][3]) = Columns[i][2])
\* whatever the history of preference operations, every column is shown in a unit that has a display entry
O_ShownUnitDisplayable == \A i \in DOMAIN Columns : Columns[i][2] # "" => ShownUnit(i) \in DisplayedUnits
\* the shown unit follows the slot at once: after an assignment to a slot exactly the columns of that slot change
O_FollowsSlot == [][\A i \in DOMAIN Columns : (Columns[i][2] # "" /\ last'.a = "Assign" /\ Columns[i][3] # last'.slot)
                                               => ShownUnit(i)' = ShownUnit(i)]_vars
O_TableIsFunction == \A i, j \in DOMAIN DisplayTable : DisplayTable[i][1] = DisplayTable[j][1] => i = j
O_TableSize == Len(DisplayTable) = 41 /\ Len(Columns) = 16
=============================================================================
