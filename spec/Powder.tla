------------------------------- MODULE Powder -------------------------------
(***************************************************************************)
(* C17 - powder temperature sensitivity is linear, anchored and reproduces *)
(* calibration.                                                            *)
(*                                                                         *)
(* State machine of one Ammo object: stated velocity v0 at stated powder   *)
(* temperature T0 (constants of the object), a modifier (fraction of v0    *)
(* per 15 degrees C, exact rational <<n, d>> in lowest terms) and the      *)
(* enable flag.  Operations in any order:                                  *)
(*   Calibrate(v1, T1) - derive the modifier from a second measurement;    *)
(*                       rejected (state unchanged) when v1 = v0 or T1 = T0*)
(*   SetModifier(m), Toggle, Query(T)                                      *)
(* Query's answer is the exact rational                                    *)
(*        v0 * (15 d + n (T - T0)) / (15 d)         (flag on),   v0 (off). *)
(* Temperatures are integers in degrees C, velocities integers in m/s.     *)
(***************************************************************************)
EXTENDS Integers, Sequences, FiniteSets, TLC

CONSTANTS Vels, Temps, Mods, MaxOps

Abs(x) == IF x < 0 THEN -x ELSE x
RECURSIVE GCD(_, _)
GCD(a, b) == IF b = 0 THEN a ELSE GCD(b, a % b)
Norm(r) == LET g == GCD(Abs(r[1]), Abs(r[2]))
               s == IF r[2] < 0 THEN -1 ELSE 1
           IN IF r[1] = 0 THEN <<0, 1>> ELSE <<s * (r[1] \div g), s * (r[2] \div g)>>

\* modifier that makes the line through (T0, v0) pass through (T1, v1):  (v1-v0)/(T1-T0) * 15 / v0
CalibratedMod(v0, T0, v1, T1) == Norm(<<15 * (v1 - v0), (T1 - T0) * v0>>)

\* velocity at temperature T as the factored rational  v0 * p / q   (<<v0, p, q>>, p/q in lowest terms)
VelAt(v0, T0, mod, flag, T) ==
  IF ~flag THEN <<v0, 1, 1>>
  ELSE LET r == Norm(<<15 * mod[2] + mod[1] * (T - T0), 15 * mod[2]>>) IN <<v0, r[1], r[2]>>

\* <<v, p, q>> equals the integer velocity w
VelIs(f, w) == f[1] * f[2] = w * f[3]

VARIABLES v0, T0, mod, flag, cal, ops, last
vars == <<v0, T0, mod, flag, cal, ops, last>>

NoCal == <<0, 0>>
Init == /\ v0 \in Vels /\ T0 \in Temps
        /\ mod = <<0, 1>> /\ flag = FALSE /\ cal = NoCal /\ ops = 0
        /\ last = [a |-> "New", v |-> 0, T |-> 0, res |-> <<0, 1, 1>>, ok |-> TRUE]

Calibrate(v1, T1) ==
  /\ ops < MaxOps /\ ops' = ops + 1
  /\ IF v1 = v0 \/ T1 = T0
     THEN /\ UNCHANGED <<mod, cal>>
          /\ last' = [a |-> "Calibrate", v |-> v1, T |-> T1, res |-> <<0, 1, 1>>, ok |-> FALSE]
     ELSE /\ mod' = CalibratedMod(v0, T0, v1, T1)
          /\ cal' = <<v1, T1>>
          /\ last' = [a |-> "Calibrate", v |-> v1, T |-> T1, res |-> <<0, 1, 1>>, ok |-> TRUE]
  /\ UNCHANGED <<v0, T0, flag>>

SetModifier(m) ==
  /\ ops < MaxOps /\ ops' = ops + 1
  /\ mod' = Norm(m) /\ cal' = NoCal
  /\ last' = [a |-> "SetModifier", v |-> m[1], T |-> m[2], res |-> <<0, 1, 1>>, ok |-> TRUE]
  /\ UNCHANGED <<v0, T0, flag>>

Toggle ==
  /\ ops < MaxOps /\ ops' = ops + 1
  /\ flag' = ~flag
  /\ last' = [a |-> "Toggle", v |-> 0, T |-> 0, res |-> <<0, 1, 1>>, ok |-> TRUE]
  /\ UNCHANGED <<v0, T0, mod, cal>>

Query(T) ==
  /\ ops < MaxOps /\ ops' = ops + 1
  /\ last' = [a |-> "Query", v |-> 0, T |-> T, res |-> VelAt(v0, T0, mod, flag, T), ok |-> TRUE]
  /\ UNCHANGED <<v0, T0, mod, flag, cal>>

Next == \/ \E v1 \in Vels, T1 \in Temps : Calibrate(v1, T1)
        \/ \E m \in Mods : SetModifier(m)
        \/ Toggle
        \/ \E T \in Temps : Query(T)
Spec == Init /\ [][Next]_vars

---------------------------------------------------------------------------
\* disabled: the stated velocity at every temperature
C17_DisabledIsStated == \A T \in Temps : ~flag => VelIs(VelAt(v0, T0, mod, flag, T), v0)
\* enabled: anchored at the stated powder temperature
C17_Anchored == flag => VelIs(VelAt(v0, T0, mod, flag, T0), v0)
\* enabled: linear in temperature, changing by modifier * v0 per 15 C
C17_LinearPer15 == flag =>
  \A T \in Temps : LET f == VelAt(v0, T0, mod, flag, T)
                   IN \* f - v0 = v0 * mod * (T - T0) / 15     cross-multiplied
                      (f[2] - f[3]) * 15 * mod[2] = f[3] * mod[1] * (T - T0)
\* a calibrated modifier reproduces the second measurement, whichever of the two is faster or warmer
C17_ReproducesCalibration == (flag /\ cal # NoCal) => VelIs(VelAt(v0, T0, mod, flag, cal[2]), cal[1])
\* a rejected calibration changes nothing (action property)
C17_RejectLeavesState == [][(last'.a = "Calibrate" /\ ~last'.ok) => UNCHANGED <<mod, flag, cal>>]_vars
=============================================================================
