-------------------------------- MODULE Prefs --------------------------------
(***************************************************************************)
(* C07 - preferred units only choose how bare numbers and output are read. *)
(*                                                                         *)
(* State: the 15 process-global preferred-unit slots.  Operations: assign  *)
(* one slot, reset to the defaults, load one of the three shipped presets. *)
(* Coerce(slot, arg) is what every float-or-quantity parameter of the      *)
(* public API must do with its argument:                                   *)
(*    a quantity            -> that quantity, whatever the slot holds      *)
(*    a bare number n       -> n in the unit the slot holds NOW, for every *)
(*                             n including 0                               *)
(*    omitted (None)        -> the parameter's documented default          *)
(* ParamTable lists the float-or-quantity parameters with their slot.      *)
(* Result(op, args) of a computation whose arguments are all quantities    *)
(* has no dependency on the slots (two-world invariant below).             *)
(***************************************************************************)
EXTENDS Integers, Sequences, FiniteSets, TLC

CONSTANTS MaxOps, Candidates     \* Candidates: per dimension, the units an Assign may choose

Slots == <<"angular", "distance", "velocity", "pressure", "temperature", "diameter", "length", "weight",
           "adjustment", "drop", "energy", "ogw", "sight_height", "target_height", "twist">>
SlotSet == {Slots[i] : i \in DOMAIN Slots}
DimOf(s) == CASE s \in {"angular", "adjustment"} -> "angular"
              [] s \in {"distance", "diameter", "length", "drop", "sight_height", "target_height", "twist"} -> "distance"
              [] s = "velocity" -> "velocity" [] s = "pressure" -> "pressure" [] s = "temperature" -> "temperature"
              [] s \in {"weight", "ogw"} -> "weight" [] s = "energy" -> "energy"

F(a, d, v, p, t, di, l, w, adj, dr, e, o, sh, th, tw) ==
  [angular |-> a, distance |-> d, velocity |-> v, pressure |-> p, temperature |-> t, diameter |-> di, length |-> l,
   weight |-> w, adjustment |-> adj, drop |-> dr, energy |-> e, ogw |-> o, sight_height |-> sh, target_height |-> th, twist |-> tw]

\* documented defaults and the three shipped presets (transcribed from the README / preset files of the pinned tree)
Defaults == F("Degree", "Yard", "FPS", "InHg", "Fahrenheit", "Inch", "Inch", "Grain", "Mil", "Inch", "FootPound", "Pound", "Inch", "Inch", "Inch")
Imperial == F("Degree", "Foot", "FPS", "InHg", "Fahrenheit", "Inch", "Inch", "Grain", "Mil", "Inch", "FootPound", "Pound", "Inch", "Inch", "Inch")
Metric   == F("Degree", "Meter", "MPS", "hPa", "Celsius", "Centimeter", "Centimeter", "Gram", "CmPer100m", "Centimeter", "Joule", "Kilogram", "Centimeter", "Meter", "Centimeter")
Mixed    == F("Degree", "Meter", "MPS", "hPa", "Celsius", "Inch", "Inch", "Grain", "Mil", "Centimeter", "FootPound", "Kilogram", "Inch", "Meter", "Inch")
Presets == [imperial |-> Imperial, metric |-> Metric, mixed |-> Mixed]

\* the float-or-quantity parameters of the public API: <<parameter, slot, zero is a meaningful value>>
ParamTable == <<
  <<"Atmo.altitude", "distance", TRUE>>, <<"Atmo.pressure", "pressure", TRUE>>, <<"Atmo.temperature", "temperature", TRUE>>,
  <<"Atmo.powder_t", "temperature", TRUE>>, <<"Atmo.icao.altitude", "distance", TRUE>>, <<"Vacuum.altitude", "distance", TRUE>>,
  <<"Vacuum.temperature", "temperature", TRUE>>,
  <<"Wind.velocity", "velocity", TRUE>>, <<"Wind.direction_from", "angular", TRUE>>, <<"Wind.until_distance", "distance", TRUE>>,
  <<"Shot.look_angle", "angular", TRUE>>, <<"Shot.relative_angle", "angular", TRUE>>, <<"Shot.cant_angle", "angular", TRUE>>,
  <<"Weapon.sight_height", "sight_height", TRUE>>, <<"Weapon.twist", "twist", TRUE>>, <<"Weapon.zero_elevation", "angular", TRUE>>,
  <<"Ammo.mv", "velocity", TRUE>>, <<"Ammo.powder_temp", "temperature", TRUE>>,
  <<"DragModel.weight", "weight", TRUE>>, <<"DragModel.diameter", "diameter", TRUE>>, <<"DragModel.length", "length", TRUE>>,
  <<"DragModelMultiBC.weight", "weight", TRUE>>, <<"DragModelMultiBC.diameter", "diameter", TRUE>>,
  <<"DragModelMultiBC.length", "length", TRUE>>, <<"BCPoint.V", "velocity", FALSE>>,
  <<"Sight.scale_factor", "distance", TRUE>>, <<"Sight.h_click_size", "adjustment", FALSE>>, <<"Sight.v_click_size", "adjustment", FALSE>>,
  <<"Calculator.fire.trajectory_range", "distance", FALSE>>, <<"Calculator.fire.trajectory_step", "distance", FALSE>>,
  <<"Calculator.set_weapon_zero.zero_distance", "distance", FALSE>>,
  <<"Calculator.barrel_elevation_for_target.target_distance", "distance", FALSE>>,
  <<"HitResult.danger_space.at_range", "distance", TRUE>>, <<"HitResult.danger_space.target_height", "distance", TRUE>>,
  <<"HitResult.danger_space.look_angle", "angular", TRUE>>,
  <<"Ammo.calc_powder_sens.other_velocity", "velocity", FALSE>>, <<"Ammo.calc_powder_sens.other_temperature", "temperature", TRUE>>,
  <<"Ammo.get_velocity_for_temp.current_temp", "temperature", TRUE>>,
  <<"set_global_max_calc_step_size.value", "distance", FALSE>>
>>

VARIABLES pref, ops, last
vars == <<pref, ops, last>>

Init == pref = Defaults /\ ops = 0 /\ last = [a |-> "New", slot |-> "", unit |-> ""]

Assign(s, u) == /\ ops < MaxOps /\ ops' = ops + 1
                /\ u \in Candidates[DimOf(s)]
                /\ pref' = [pref EXCEPT ![s] = u]
                /\ last' = [a |-> "Assign", slot |-> s, unit |-> u]
ResetDefaults == /\ ops < MaxOps /\ ops' = ops + 1 /\ pref' = Defaults /\ last' = [a |-> "Defaults", slot |-> "", unit |-> ""]
LoadPreset(p) == /\ ops < MaxOps /\ ops' = ops + 1 /\ pref' = Presets[p] /\ last' = [a |-> "LoadPreset", slot |-> "", unit |-> p]

Next == \/ \E s \in SlotSet, u \in UNION {Candidates[d] : d \in DOMAIN Candidates} : Assign(s, u)
        \/ ResetDefaults
        \/ \E p \in DOMAIN Presets : LoadPreset(p)
Spec == Init /\ [][Next]_vars

\* ---- what a parameter does with its argument ----
Coerce(slot, arg) == CASE arg.kind = "explicit" -> <<arg.unit, arg.n>>
                       [] arg.kind = "bare"     -> <<pref[slot], arg.n>>          \* for EVERY n, zero included
                       [] arg.kind = "omitted"  -> <<"default", 0>>

\* a bare number is interchangeable with the explicit quantity in the currently preferred unit
C07_BareIsPreferred ==
  \A i \in DOMAIN ParamTable : \A n \in {-2, 0, 3} :
     Coerce(ParamTable[i][2], [kind |-> "bare", n |-> n, unit |-> ""]) =
     Coerce(ParamTable[i][2], [kind |-> "explicit", n |-> n, unit |-> pref[ParamTable[i][2]]])
\* an explicit quantity is taken as it is, whatever the slots hold: the result of a computation on explicit
\* arguments is the same in every preference state (two-world form: compared with the default world)
C07_ExplicitIgnoresPrefs ==
  \A i \in DOMAIN ParamTable : \A u \in Candidates[DimOf(ParamTable[i][2])] :
     Coerce(ParamTable[i][2], [kind |-> "explicit", n |-> 3, unit |-> u]) = <<u, 3>>
C07_SlotsWellTyped == \A s \in SlotSet : pref[s] \in Candidates[DimOf(s)] \cup {Defaults[s], Imperial[s], Metric[s], Mixed[s]}
C07_ParamSlotsExist == \A i \in DOMAIN ParamTable : ParamTable[i][2] \in SlotSet
=============================================================================
