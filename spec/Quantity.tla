------------------------------ MODULE Quantity ------------------------------
(***************************************************************************)
(* C13 - a quantity's magnitude is immutable and comparisons follow        *)
(* magnitude.                                                              *)
(*                                                                         *)
(* Three quantity objects: q1, q2 of dimension A (magnitudes MagA1, MagA2  *)
(* in A's base unit - equal or different by configuration) and q3 of       *)
(* dimension B.  A quantity object has an immutable magnitude and a        *)
(* MUTABLE display unit (AbstractDimension.convert / << / Unit.X(q) and    *)
(* every library call that takes the quantity as an argument re-display    *)
(* the object itself).  Reading a value is a function of (magnitude, unit) *)
(* only; ordering, equality and hashing follow the magnitude.              *)
(*                                                                         *)
(* HashRule: "mag"  - hash is a function of the magnitude                  *)
(*           "asis" - the pinned code's rule (magnitude, display unit):    *)
(*                    TLC refutes C13_EqualHashEqual / C13_HashStable.     *)
(***************************************************************************)
EXTENDS Integers, Sequences, FiniteSets, TLC

CONSTANTS UnitsA, UnitsB,          \* display units of the two dimensions (disjoint sets of strings)
          MagA1, MagA2, MagB,      \* magnitudes in base units
          PrefA, PrefB,            \* the preferred unit a library call re-displays an argument in
          HashRule, MaxOps

Qs == {"q1", "q2", "q3"}
DimUnits(q) == IF q = "q3" THEN UnitsB ELSE UnitsA
Mag(q) == CASE q = "q1" -> MagA1 [] q = "q2" -> MagA2 [] q = "q3" -> MagB
AllUnits == UnitsA \cup UnitsB

\* the value read from quantity q in unit u is an uninterpreted function of magnitude and unit
Val(q, u) == <<Mag(q), u>>
HashOf(q, d) == IF HashRule = "mag" THEN <<Mag(q)>> ELSE <<Mag(q), d>>

VARIABLES disp,      \* display unit of each object
          firstHash, \* ghost: hash observed first for each object (<<>> = none yet)
          last, ops
vars == <<disp, firstHash, last, ops>>

Init == /\ disp \in [Qs -> AllUnits] /\ \A q \in Qs : disp[q] \in DimUnits(q)
        /\ firstHash = [q \in Qs |-> <<>>]
        /\ last = [a |-> "New", q |-> "q1", r |-> "q1", u |-> "", res |-> <<>>, err |-> FALSE]
        /\ ops = 0

Step(l) == /\ ops < MaxOps /\ ops' = ops + 1 /\ last' = l

\* convert / << / Unit.X(q): same object, new display unit; a foreign unit is an error and changes nothing
Redisplay(kind, q, u) ==
  /\ IF u \in DimUnits(q)
     THEN disp' = [disp EXCEPT ![q] = u] /\ Step([a |-> kind, q |-> q, r |-> q, u |-> u, res |-> <<>>, err |-> FALSE])
     ELSE UNCHANGED disp /\ Step([a |-> kind, q |-> q, r |-> q, u |-> u, res |-> <<>>, err |-> TRUE])
  /\ UNCHANGED firstHash

GetIn(q, u) ==
  /\ Step([a |-> "GetIn", q |-> q, r |-> q, u |-> u,
           res |-> IF u \in DimUnits(q) THEN Val(q, u) ELSE <<>>, err |-> u \notin DimUnits(q)])
  /\ UNCHANGED <<disp, firstHash>>

\* comparison of two quantities of one dimension: -1, 0, 1 by magnitude
Cmp(q, r) ==
  /\ DimUnits(q) = DimUnits(r)
  /\ Step([a |-> "Cmp", q |-> q, r |-> r, u |-> "",
           res |-> <<IF Mag(q) < Mag(r) THEN -1 ELSE IF Mag(q) = Mag(r) THEN 0 ELSE 1>>, err |-> FALSE])
  /\ UNCHANGED <<disp, firstHash>>

Hash(q) ==
  /\ Step([a |-> "Hash", q |-> q, r |-> q, u |-> "", res |-> HashOf(q, disp[q]), err |-> FALSE])
  /\ firstHash' = [firstHash EXCEPT ![q] = IF firstHash[q] = <<>> THEN HashOf(q, disp[q]) ELSE firstHash[q]]
  /\ UNCHANGED disp

Show(q) == Step([a |-> "Show", q |-> q, r |-> q, u |-> "", res |-> <<>>, err |-> FALSE]) /\ UNCHANGED <<disp, firstHash>>

\* the quantity is passed to a library constructor / method: it comes back re-displayed in the preferred unit
PassToLibrary(q) ==
  /\ disp' = [disp EXCEPT ![q] = IF q = "q3" THEN PrefB ELSE PrefA]
  /\ Step([a |-> "Pass", q |-> q, r |-> q, u |-> (IF q = "q3" THEN PrefB ELSE PrefA), res |-> <<>>, err |-> FALSE])
  /\ UNCHANGED firstHash

Next == \E q \in Qs :
          \/ \E u \in AllUnits, kind \in {"Convert", "Shl", "UnitCall"} : Redisplay(kind, q, u)
          \/ \E u \in AllUnits : GetIn(q, u)
          \/ \E r \in Qs : Cmp(q, r)
          \/ Hash(q) \/ Show(q) \/ PassToLibrary(q)
Spec == Init /\ [][Next]_vars

---------------------------------------------------------------------------
C13_DisplayInDimension == \A q \in Qs : disp[q] \in DimUnits(q)
\* equal quantities hash equally, whatever they are displayed in
C13_EqualHashEqual == \A q, r \in Qs : (DimUnits(q) = DimUnits(r) /\ Mag(q) = Mag(r)) => HashOf(q, disp[q]) = HashOf(r, disp[r])
\* a quantity's hash does not change when its display unit does
C13_HashStable == \A q \in Qs : firstHash[q] # <<>> => HashOf(q, disp[q]) = firstHash[q]
\* a value read is independent of the display unit and of history (syntactic: Val has no other argument);
\* a foreign unit never yields a value
C13_NoForeignValue == (last.a = "GetIn" /\ last.u \notin DimUnits(last.q)) => (last.err /\ last.res = <<>>)
=============================================================================
