----------------------------- MODULE RecorderInd -----------------------------
(***************************************************************************)
(* Unbounded safety of the range recorder (C03, design level), discharged  *)
(* by Apalache as an inductive invariant: for a record step S and ground   *)
(* advances of at most S per iteration (any number of iterations, any      *)
(* range), the recorder never skips and never repeats a multiple: when the *)
(* iteration at position x has been processed, exactly the multiples       *)
(* 0 .. nextRec-1 have been recorded and they are exactly the multiples    *)
(* <= x.  (TLC checks the same on bounded ranges in Integrator.tla; here   *)
(* x and nextRec are unbounded integers.)                                  *)
(*   Init => IndInv            (length 0)                                  *)
(*   IndInv /\ Next => IndInv' (length 1)                                  *)
(***************************************************************************)
EXTENDS Integers

S == 7          \* record step (instantiated as a number to keep the arithmetic linear)
A == 7          \* largest ground advance per iteration, A <= S

VARIABLES
  \* @type: Int;
  x,         \* position about to be processed
  \* @type: Int;
  prevX,     \* position processed last
  \* @type: Int;
  nextRec,   \* multiples 0 .. nextRec-1 have been recorded
  \* @type: Int;
  lastK      \* multiple recorded by the last iteration (-1: none)

Init == x = 0 /\ prevX = 0 /\ nextRec = 0 /\ lastK = -1

Next ==
  /\ IF x >= nextRec * S
     THEN nextRec' = nextRec + 1 /\ lastK' = nextRec      \* the owed multiple is recorded (interpolated between prevX and x)
     ELSE nextRec' = nextRec /\ lastK' = -1
  /\ prevX' = x
  /\ \E a \in 0..A : x' = x + a

IndInit ==
  /\ x \in Int /\ prevX \in Int /\ nextRec \in Int /\ lastK \in Int
IndInv ==
  /\ nextRec >= 0 /\ prevX >= 0 /\ prevX <= x /\ x - prevX <= A
  /\ (nextRec = 0 => (x = 0 /\ prevX = 0))
  \* every multiple <= prevX has been recorded, none beyond it
  /\ (nextRec > 0 => ((nextRec - 1) * S <= prevX /\ prevX < nextRec * S))
  \* a recorded multiple lies between the two points it was interpolated from
  /\ (lastK >= 0 => (lastK = nextRec - 1 /\ lastK * S <= prevX))
InitInd == IndInit /\ IndInv       \* an arbitrary state satisfying the invariant
NeverSkips == (x >= nextRec * S) => x < (nextRec + 1) * S       \* at most one multiple is owed per iteration
=============================================================================
