------------------------------- MODULE Results -------------------------------
(***************************************************************************)
(* Accessors of a computed result (HitResult, helpers) and the naming of   *)
(* row flags - API surface not named by a listed property but relied on by *)
(* C15 (zeros) and C20 (look-ups).  A trajectory is a sequence of flag     *)
(* sets over {U, D, M, R, A} (zero-up, zero-down, Mach, range, apex).      *)
(*   zeros()           : the rows flagged U or D, in order; an error when  *)
(*                       there are none; refused without extra data        *)
(*   first with flag f : index of the first row carrying f, else -1        *)
(*   Name(S)           : NONE for the empty set, ALL for the full set,     *)
(*                       otherwise the names joined in the fixed order     *)
(*                       ZERO_UP, ZERO_DOWN, ZERO, MACH, RANGE, APEX with  *)
(*                       ZERO replacing ZERO_UP and ZERO_DOWN when both    *)
(*                       are present                                       *)
(***************************************************************************)
EXTENDS Integers, Sequences, FiniteSets, TLC
CONSTANTS MaxLen, RowFlags        \* RowFlags: the flag sets a row may carry
AllFlags == {"U", "D", "M", "R", "A"}
Bit(f) == CASE f = "U" -> 1 [] f = "D" -> 2 [] f = "M" -> 4 [] f = "R" -> 8 [] f = "A" -> 16
RECURSIVE Value(_)
Value(S) == IF S = {} THEN 0 ELSE LET f == CHOOSE x \in S : TRUE IN Bit(f) + Value(S \ {f})

Name(S) ==
  IF S = {} THEN <<"NONE">>
  ELSE IF S = AllFlags THEN <<"ALL">>
  ELSE LET both == {"U", "D"} \subseteq S IN
       (IF "U" \in S /\ ~both THEN <<"ZERO_UP">> ELSE <<>>) \o (IF "D" \in S /\ ~both THEN <<"ZERO_DOWN">> ELSE <<>>) \o
       (IF both THEN <<"ZERO">> ELSE <<>>) \o (IF "M" \in S THEN <<"MACH">> ELSE <<>>) \o
       (IF "R" \in S THEN <<"RANGE">> ELSE <<>>) \o (IF "A" \in S THEN <<"APEX">> ELSE <<>>)

Trajs == UNION {[1..n -> RowFlags] : n \in 0..MaxLen}
Zeros(t) == SelectSeq([i \in 1..Len(t) |-> i], LAMBDA i : (t[i] \cap {"U", "D"}) # {})
FirstWith(t, f) == IF \E i \in 1..Len(t) : f \in t[i] THEN (CHOOSE i \in 1..Len(t) : f \in t[i] /\ \A j \in 1..(i - 1) : f \notin t[j]) - 1 ELSE -1

\* a speed column that is NOT monotone (derived from the flag word so that every trajectory carries one): the helper that
\* looks for the first row slower than a threshold must scan in order, strictly
Vel(t) == [i \in 1..Len(t) |-> Value(t[i]) % 5]
FirstBelow(t, q) == IF \E i \in 1..Len(t) : Vel(t)[i] < q
                    THEN (CHOOSE i \in 1..Len(t) : Vel(t)[i] < q /\ \A j \in 1..(i - 1) : ~(Vel(t)[j] < q)) - 1 ELSE -1

VARIABLES traj, extra
vars == <<traj, extra>>
Init == traj \in Trajs /\ extra \in BOOLEAN
Next == UNCHANGED vars
Spec == Init /\ [][Next]_vars
R_ZerosInOrder == \A i \in 1..(Len(Zeros(traj)) - 1) : Zeros(traj)[i] < Zeros(traj)[i + 1]
R_NameInjective == \A S, T \in SUBSET AllFlags : Name(S) = Name(T) => S = T
R_FirstBelowIsFirst == \A q \in 0..5 : LET k == FirstBelow(traj, q) IN k >= 0 => (Vel(traj)[k + 1] < q /\ \A j \in 1..k : Vel(traj)[j] >= q)
R_ValueRange == \A S \in SUBSET AllFlags : Value(S) \in 0..31
=============================================================================
