------------------------------- MODULE Service -------------------------------
(***************************************************************************)
(* Beyond the listed properties: the process-wide service state of the     *)
(* library that is not configuration - the logger (console handler, the    *)
(* optional file handler, the DEBUG switch) - and the one piece of         *)
(* per-calculator state that is exposed on purpose: Calculator.cdm, the    *)
(* drag table of the computation the calculator made last.                 *)
(*   EnableFile(f)  replaces any file handler by one writing to f          *)
(*   DisableFile    removes and closes it (no-op without one)              *)
(*   SetDebug(b)    switches DEBUG; the logger level follows               *)
(*   Compute(c, t)  a trajectory / zero computation with table t on c      *)
(*                  (whether it returns or raises): cdm[c] becomes t       *)
(* The computations themselves are uninterpreted here; what the binding    *)
(* adds (C10's concern seen from this side) is that their results do not   *)
(* depend on any of this state.                                            *)
(***************************************************************************)
EXTENDS Naturals, Sequences, FiniteSets, TLC
CONSTANTS Files, Calcs, Tables, MaxOps

VARIABLES fh,        \* the file the file handler writes to, or "none"
          attached,  \* handlers attached to the logger: "console" and files
          closed,    \* files whose handler has been closed
          debug, level, cdm, ops, last
vars == <<fh, attached, closed, debug, level, cdm, ops, last>>

Init == /\ fh = "none" /\ attached = {"console"} /\ closed = {} /\ debug = FALSE /\ level = "INFO"
        /\ cdm = [c \in Calcs |-> "none"] /\ ops = 0 /\ last = [a |-> "Init", arg |-> "none"]

EnableFile(f) ==
  /\ fh' = f
  /\ attached' = (attached \ {fh}) \cup {f}
  /\ closed' = (IF fh = "none" THEN closed ELSE closed \cup {fh}) \ {f}
  /\ last' = [a |-> "EnableFile", arg |-> f]
  /\ UNCHANGED <<debug, level, cdm>>

DisableFile ==
  /\ fh' = "none"
  /\ attached' = attached \ {fh}
  /\ closed' = IF fh = "none" THEN closed ELSE closed \cup {fh}
  /\ last' = [a |-> "DisableFile", arg |-> "none"]
  /\ UNCHANGED <<debug, level, cdm>>

SetDebug(b) ==
  /\ debug' = b /\ level' = IF b THEN "DEBUG" ELSE "INFO"
  /\ last' = [a |-> "SetDebug", arg |-> IF b THEN "on" ELSE "off"]
  /\ UNCHANGED <<fh, attached, closed, cdm>>

Compute(c, t) ==
  /\ cdm' = [cdm EXCEPT ![c] = t]
  /\ last' = [a |-> "Compute", arg |-> <<c, t>>]
  /\ UNCHANGED <<fh, attached, closed, debug, level>>

Next == /\ ops < MaxOps /\ ops' = ops + 1
        /\ \/ \E f \in Files : EnableFile(f)
           \/ DisableFile
           \/ \E b \in BOOLEAN : SetDebug(b)
           \/ \E c \in Calcs, t \in Tables : Compute(c, t)
Spec == Init /\ [][Next]_vars

S_AtMostOneFileHandler == Cardinality(attached \ {"console"}) <= 1
S_AttachedIsConsolePlusFile == attached = {"console"} \cup (IF fh = "none" THEN {} ELSE {fh})
S_NoOpenHandlerLeft == \A f \in Files : (f \in closed) => f # fh
S_LevelFollowsDebug == level = IF debug THEN "DEBUG" ELSE "INFO"
S_ComputeTouchesNoService == [][(last'.a = "Compute") => UNCHANGED <<fh, attached, closed, debug, level>>]_vars
S_ServiceTouchesNoCdm == [][(last'.a # "Compute") => UNCHANGED cdm]_vars
=============================================================================
