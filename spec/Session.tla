------------------------------- MODULE Session -------------------------------
(***************************************************************************)
(* C10 - results depend only on the arguments: deterministic, isolated,    *)
(* non-mutating.                                                           *)
(*                                                                         *)
(* A session works on a pool of shots and calculators.  Shots share        *)
(* sub-objects by reference (two shots on one weapon, two on one           *)
(* ammunition / drag table).  The ONLY state an operation may change is    *)
(* the stored zero of the weapon of the shot being zeroed, and only when   *)
(* zeroing succeeds; everything else (quantities and fields of shot,       *)
(* weapon, ammunition, atmosphere, winds, drag tables, calculator          *)
(* settings, process globals) has a version counter that must stay put.    *)
(*                                                                         *)
(* The result of an operation is the uninterpreted value                   *)
(*      Res(op, request, content of the shot incl. its weapon's CURRENT    *)
(*          zero, settings of the calculator)                              *)
(* - nothing else.  `dirt` models what a long-lived solver object carries  *)
(* over from its previous call; DirtRule = "ignored" is the law,           *)
(* "leaks" the deviation TLC refutes.                                      *)
(***************************************************************************)
EXTENDS Integers, Sequences, FiniteSets, TLC

CONSTANTS Shots, Calcs, WeaponOf, AmmoOf,     \* object graph: functions Shots -> weapon / ammo names
          Distances, Requests, DirtRule, MaxOps,
          Ops,                                \* the operations a session may use (focused enumerations use a sub-alphabet)
          MaxEdits                            \* how often the caller may edit one ammunition in place

Weapons == {WeaponOf[s] : s \in Shots}
Untouched == <<"z0">>      \* zero tokens are flat sequences of strings: the chain of successful zeroings

VARIABLES content,   \* ammunition -> how often the CALLER edited its drag table in place (a legitimate change of the arguments)
          zero,      \* weapon -> token of its stored zero
          version,   \* object -> number of times any field other than a weapon's zero was written
          dirt,      \* calculator -> shot its solver object was last initialised for ("none")
          last, ops
vars == <<content, zero, version, dirt, last, ops>>

Objects == Shots \cup Weapons \cup {AmmoOf[s] : s \in Shots} \cup Calcs \cup {"globals", "tables"}

Init == /\ content = [a \in {AmmoOf[s] : s \in Shots} |-> 0]
        /\ zero = [w \in Weapons |-> Untouched]
        /\ version = [o \in Objects |-> 0]
        /\ dirt = [c \in Calcs |-> "none"]
        /\ last = [a |-> "New", c |-> "", s |-> "", arg |-> "", res |-> <<>>, ok |-> TRUE]
        /\ ops = 0

\* what a computation may depend on
ArgState(s) == <<s, zero[WeaponOf[s]], content[AmmoOf[s]]>>
Res(a, c, s, arg) ==
  IF DirtRule = "leaks" /\ dirt[c] \notin {"none", s}
  THEN <<a, arg, ArgState(s), c, "after", dirt[c]>>
  ELSE <<a, arg, ArgState(s), c>>

Step(l) == l.a \in Ops /\ ops < MaxOps /\ ops' = ops + 1 /\ last' = l

Fire(c, s, r) ==
  /\ Step([a |-> "Fire", c |-> c, s |-> s, arg |-> r, res |-> Res("Fire", c, s, r), ok |-> TRUE])
  /\ dirt' = [dirt EXCEPT ![c] = s] /\ UNCHANGED <<content, zero, version>>

\* a request beyond the projectile's reach: raises a range error carrying the partial trajectory
FireRaises(c, s) ==
  /\ Step([a |-> "FireRaises", c |-> c, s |-> s, arg |-> "beyond", res |-> Res("FireRaises", c, s, "beyond"), ok |-> FALSE])
  /\ dirt' = [dirt EXCEPT ![c] = s] /\ UNCHANGED <<content, zero, version>>

Zero(c, s, d) ==
  /\ Step([a |-> "Zero", c |-> c, s |-> s, arg |-> d, res |-> Res("Zero", c, s, d), ok |-> TRUE])
  /\ zero' = [zero EXCEPT ![WeaponOf[s]] = <<c, s, d>> \o zero[WeaponOf[s]]]
  /\ dirt' = [dirt EXCEPT ![c] = s] /\ UNCHANGED <<content, version>>

\* an unreachable zero distance: raises and leaves the stored zero alone
ZeroRaises(c, s) ==
  /\ Step([a |-> "ZeroRaises", c |-> c, s |-> s, arg |-> "unreachable", res |-> Res("ZeroRaises", c, s, "unreachable"), ok |-> FALSE])
  /\ dirt' = [dirt EXCEPT ![c] = s] /\ UNCHANGED <<content, zero, version>>

Danger(c, s) ==
  /\ Step([a |-> "Danger", c |-> c, s |-> s, arg |-> "extra", res |-> Res("Danger", c, s, "extra"), ok |-> TRUE])
  /\ dirt' = [dirt EXCEPT ![c] = s] /\ UNCHANGED <<content, zero, version>>

\* constructing a multi-BC model from the table another shot's ammunition uses
Build(s) ==
  /\ Step([a |-> "Build", c |-> "", s |-> s, arg |-> "mbc", res |-> <<"Build", AmmoOf[s]>>, ok |-> TRUE])
  /\ UNCHANGED <<content, zero, version, dirt>>

\* the caller edits a shot's ammunition IN PLACE (its drag table, its powder-sensitivity configuration, the bullet
\* dimensions of its drag model, its muzzle velocity - the binding cycles through them): the same objects carry new content, and every later result must be the one for the new content (a solver
\* that cached something derived from the table, or keyed on the identity of the objects, would not notice)
EditTable(s) ==
  /\ content[AmmoOf[s]] < MaxEdits
  /\ Step([a |-> "EditTable", c |-> "", s |-> s, arg |-> "scaleCD", res |-> <<"EditTable", AmmoOf[s]>>, ok |-> TRUE])
  /\ content' = [content EXCEPT ![AmmoOf[s]] = content[AmmoOf[s]] + 1]
  /\ UNCHANGED <<zero, version, dirt>>

\* the caller looks at the quantities of a shot in other units (<< re-labels the library-held objects in place) and switches
\* the preferred units: nothing a computation may depend on changes (C13: display only; C07: explicit units ignore preferences)
Redisplay(s) ==
  /\ Step([a |-> "Redisplay", c |-> "", s |-> s, arg |-> "units", res |-> <<"Redisplay">>, ok |-> TRUE])
  /\ UNCHANGED <<content, zero, version, dirt>>

\* a shot whose drag table is malformed (a repeated Mach row): every computation with it raises, every time
FireBadTable(c) ==
  /\ Step([a |-> "FireBadTable", c |-> c, s |-> "sbad", arg |-> "plain", res |-> <<"FireBadTable", c>>, ok |-> FALSE])
  /\ dirt' = [dirt EXCEPT ![c] = "sbad"] /\ UNCHANGED <<content, zero, version>>

Next == \E c \in Calcs, s \in Shots :
          \/ \E r \in Requests : Fire(c, s, r)
          \/ FireRaises(c, s) \/ ZeroRaises(c, s) \/ Danger(c, s) \/ Build(s) \/ EditTable(s) \/ FireBadTable(c) \/ Redisplay(s)
          \/ \E d \in Distances : Zero(c, s, d)
Spec == Init /\ [][Next]_vars

---------------------------------------------------------------------------
\* the result is the one the same operation gives on a fresh calculator, whatever came before
C10_HistoryIndependent == /\ (last.a \in {"Fire", "FireRaises", "ZeroRaises", "Danger"}) => last.res = <<last.a, last.arg, ArgState(last.s), last.c>>
                          /\ (last.a = "FireBadTable") => last.res = <<"FireBadTable", last.c>>
C10_ZeroResultIndependent == [][(last'.a = "Zero") => last'.res = <<"Zero", last'.arg, <<last'.s, zero[WeaponOf[last'.s]], content[AmmoOf[last'.s]]>>, last'.c>>]_vars
\* nothing but the zeroed weapon's stored zero ever changes, and only when zeroing succeeds
C10_OnlyZeroWritesZero == [][\A w \in Weapons : zero'[w] # zero[w] => (last'.a = "Zero" /\ WeaponOf[last'.s] = w)]_vars
C10_NothingElseMutates == \A o \in Objects : version[o] = 0
C10_FailedZeroKeepsZero == [][(last'.a \in {"ZeroRaises", "FireRaises", "FireBadTable"}) => zero' = zero]_vars
=============================================================================
