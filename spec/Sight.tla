-------------------------------- MODULE Sight --------------------------------
(***************************************************************************)
(* C19 - sight click counts are the angular correction divided by the      *)
(* effective click value.                                                  *)
(*                                                                         *)
(* State machine of one sight object: Construct (accept / reject), then    *)
(* any number of Adjust requests.  All numbers are exact: click sizes are  *)
(* integers in tenths of the angular unit, corrections are integers in the *)
(* angular unit, and a click count is an exact rational <<num, den>>.      *)
(*   FFP : effective click = nominal                                       *)
(*   SFP : effective click = nominal * (calibration / target) * magnif.    *)
(*   LWIR: effective click = nominal / magnification                       *)
(***************************************************************************)
EXTENDS Integers, Sequences, FiniteSets, TLC

CONSTANTS Planes,      \* focal planes tried at construction, e.g. {"FFP","SFP","LWIR","XFP"}
          Clicks,      \* nominal click sizes in tenths of a unit (may include 0 and negatives)
          CalDists,    \* calibration distances; 0 = not given
          TgtDists,    \* target distances (> 0)
          Mags,        \* magnifications (> 0)
          Corrs        \* corrections (integers, any sign)

KnownPlanes == {"FFP", "SFP", "LWIR"}

\* ---- rationals <<n, d>>, d # 0, kept in lowest terms with d > 0 (TLC integers are 32 bit) ----
Abs(x) == IF x < 0 THEN -x ELSE x
RECURSIVE GCD(_, _)
GCD(a, b) == IF b = 0 THEN a ELSE GCD(b, a % b)
Norm(r) == LET g == GCD(Abs(r[1]), Abs(r[2]))
               s == IF r[2] < 0 THEN -1 ELSE 1
           IN <<s * (r[1] \div g), s * (r[2] \div g)>>
REq(a, b)  == Norm(a) = Norm(b)
RAdd(a, b) == LET x == Norm(a) y == Norm(b) IN Norm(<<x[1] * y[2] + y[1] * x[2], x[2] * y[2]>>)
RSign(a)   == IF a[1] = 0 THEN 0 ELSE IF (a[1] > 0) = (a[2] > 0) THEN 1 ELSE -1
ISign(x)   == IF x = 0 THEN 0 ELSE IF x > 0 THEN 1 ELSE -1

\* construction is accepted exactly when ...
Accepted(plane, vclick, hclick, cal) ==
  /\ plane \in KnownPlanes
  /\ (plane = "SFP" => cal > 0)
  /\ vclick > 0 /\ hclick > 0

\* clicks = correction / effective click; click is in tenths, hence the factor 10
ClicksFor(pl, click, cl, tgt, mag, corr) ==
  CASE pl = "FFP"  -> Norm(<<10 * corr, click>>)
    [] pl = "SFP"  -> LET r == Norm(<<tgt, cl * mag>>) IN Norm(<<10 * corr * r[1], click * r[2]>>)
    [] pl = "LWIR" -> Norm(<<10 * corr * mag, click>>)

VARIABLES plane, vclick, hclick, cal, status, last
vars == <<plane, vclick, hclick, cal, status, last>>

NoResult == [tgt |-> 0, mag |-> 0, vcorr |-> 0, hcorr |-> 0, v |-> <<0, 1>>, h |-> <<0, 1>>]

Init ==
  /\ plane \in Planes /\ vclick \in Clicks /\ hclick \in Clicks /\ cal \in CalDists
  /\ status = "new" /\ last = NoResult

Construct ==
  /\ status = "new"
  /\ status' = IF Accepted(plane, vclick, hclick, cal) THEN "built" ELSE "rejected"
  /\ UNCHANGED <<plane, vclick, hclick, cal, last>>

Adjust(tgt, mag, vcorr, hcorr) ==
  /\ status = "built"
  /\ last' = [tgt |-> tgt, mag |-> mag, vcorr |-> vcorr, hcorr |-> hcorr,
              v |-> ClicksFor(plane, vclick, IF cal = 0 THEN 1 ELSE cal, tgt, mag, vcorr),
              h |-> ClicksFor(plane, hclick, IF cal = 0 THEN 1 ELSE cal, tgt, mag, hcorr)]
  /\ UNCHANGED <<plane, vclick, hclick, cal, status>>

Next == Construct \/ \E tgt \in TgtDists, mag \in Mags, vc \in Corrs, hc \in Corrs : Adjust(tgt, mag, vc, hc)
Spec == Init /\ [][Next]_vars

\* ---- properties ----
C19_RejectsBadSights == status = "built" => Accepted(plane, vclick, hclick, cal)
C19_AcceptsGoodSights == status = "rejected" => ~Accepted(plane, vclick, hclick, cal)
\* the sign of the click count is the sign of the correction, per axis
C19_KeepsSign == status = "built" /\ last.tgt # 0 =>
                   RSign(last.v) = ISign(last.vcorr) /\ RSign(last.h) = ISign(last.hcorr)
\* axes are independent: the vertical count does not depend on the horizontal inputs
C19_AxesIndependent == status = "built" /\ last.tgt # 0 =>
   \A hc \in Corrs : ClicksFor(plane, vclick, IF cal = 0 THEN 1 ELSE cal, last.tgt, last.mag, last.vcorr) = last.v
\* linear in the correction
C19_Linear == status = "built" /\ last.tgt # 0 =>
   \A c2 \in Corrs :
      LET cc == IF cal = 0 THEN 1 ELSE cal
      IN (last.vcorr + c2 \in Corrs) =>
           REq(ClicksFor(plane, vclick, cc, last.tgt, last.mag, last.vcorr + c2),
               RAdd(last.v, ClicksFor(plane, vclick, cc, last.tgt, last.mag, c2)))
\* FFP does not depend on magnification or distances
C19_FFPInvariant == status = "built" /\ last.tgt # 0 /\ plane = "FFP" =>
   \A t \in TgtDists, mg \in Mags : REq(ClicksFor("FFP", vclick, 1, t, mg, last.vcorr), last.v)
=============================================================================
