------------------------------- MODULE SockInd -------------------------------
(***************************************************************************)
(* Unbounded safety of the wind sock (C12, design level), discharged by    *)
(* Apalache as an inductive invariant: three segments with ARBITRARY       *)
(* integer ends 0 <= e1 <= e2 <= e3 (equal ends and ends at 0 included),   *)
(* readings at arbitrary non-decreasing integer positions, the cursor      *)
(* advanced by the loop of _WindSock.vector_for_range one step at a time.  *)
(* Whenever a reading returns, the cursor equals the number of segment     *)
(* ends <= the position read, i.e. the segment in force is the first one   *)
(* ending beyond it (calm after the last).  TLC checks the same on small   *)
(* bounded positions in Integrator.tla; here positions and ends are        *)
(* unbounded.  NextIf is the pinned code's deviation (one advance per      *)
(* reading): Apalache must find the counterexample.                        *)
(***************************************************************************)
EXTENDS Integers

VARIABLES
  \* @type: Int;
  x,        \* position of the last reading (-1: none yet)
  \* @type: Int;
  cur,      \* cursor: index of the segment in force, 0-based; 3 = beyond the last (calm)
  \* @type: Str;
  pc,       \* "idle" | "loop"
  \* @type: Int;
  e1,
  \* @type: Int;
  e2,
  \* @type: Int;
  e3

E(i) == IF i = 1 THEN e1 ELSE IF i = 2 THEN e2 ELSE e3
Sorted == 0 <= e1 /\ e1 <= e2 /\ e2 <= e3
Owes == cur < 3 /\ x >= E(cur + 1)            \* while next_range >= self.next_range

Init == x = -1 /\ cur = 0 /\ pc = "idle" /\ e1 \in Int /\ e2 \in Int /\ e3 \in Int /\ Sorted

Read == /\ pc = "idle" /\ x' \in Int /\ x' >= x /\ x' >= 0
        /\ pc' = "loop" /\ UNCHANGED <<cur, e1, e2, e3>>
Advance == pc = "loop" /\ Owes /\ cur' = cur + 1 /\ UNCHANGED <<x, pc, e1, e2, e3>>
Return == pc = "loop" /\ ~Owes /\ pc' = "idle" /\ UNCHANGED <<x, cur, e1, e2, e3>>
Next == Read \/ Advance \/ Return

\* the deviation: `if` instead of `while` - at most one advance per reading
ReadIf == /\ pc = "idle" /\ x' \in Int /\ x' >= x /\ x' >= 0
          /\ cur' = IF cur < 3 /\ x' >= E(cur + 1) THEN cur + 1 ELSE cur
          /\ pc' = "idle" /\ UNCHANGED <<e1, e2, e3>>
NextIf == ReadIf

EndsLe == (IF e1 <= x THEN 1 ELSE 0) + (IF e2 <= x THEN 1 ELSE 0) + (IF e3 <= x THEN 1 ELSE 0)
SegmentCorrect == (pc = "idle" /\ x >= 0) => cur = EndsLe
CursorMonotone == cur >= 0 /\ cur <= 3

IndInit == x \in Int /\ cur \in Int /\ pc \in {"idle", "loop"} /\ e1 \in Int /\ e2 \in Int /\ e3 \in Int
IndInv ==
  /\ Sorted /\ x >= -1 /\ cur >= 0 /\ cur <= 3
  /\ (x = -1 => (cur = 0 /\ pc = "idle"))
  /\ \A i \in 1..3 : (i <= cur => E(i) <= x)          \* every segment passed has ended at or before x
  /\ (pc = "idle" => ~Owes)                            \* and at rest the one in force ends beyond x
InitInd == IndInit /\ IndInv
=============================================================================
