------------------------------- MODULE Threads -------------------------------
(***************************************************************************)
(* C10 (concurrency) - calculators owned by distinct threads do not        *)
(* interfere.  Each thread runs one computation on its own calculator and  *)
(* shot; the computation is cut into Blocks consecutive blocks at the      *)
(* solver-loop hook (the yield points the deterministic scheduler          *)
(* controls).  A step lets one thread run one block.  The state of a       *)
(* thread's computation (`acc`) is private: it is a function of the        *)
(* thread's own blocks only, whatever the interleaving - the property the  *)
(* code must share.  ShareRule = "private" is the law; "shared" models a   *)
(* solver that keeps per-call state in a place all calculators see (a      *)
(* module-level cache, a class attribute): TLC refutes C10_Isolated.       *)
(***************************************************************************)
EXTENDS Integers, Sequences, FiniteSets, TLC
CONSTANTS Procs, Blocks, ShareRule

VARIABLES pc, acc, shared, sched
vars == <<pc, acc, shared, sched>>

Init == /\ pc = [p \in Procs |-> 0] /\ acc = [p \in Procs |-> <<>>] /\ shared = "none" /\ sched = <<>>

Run(p) ==
  /\ pc[p] < Blocks
  /\ pc' = [pc EXCEPT ![p] = pc[p] + 1]
  \* the block reads the per-call state: its own, or - under the deviation - whatever the last runner left behind
  /\ acc' = [acc EXCEPT ![p] = Append(acc[p], IF ShareRule = "shared" /\ shared \notin {"none", p} THEN <<p, pc[p] + 1, shared>>
                                              ELSE <<p, pc[p] + 1>>)]
  /\ shared' = p
  /\ sched' = Append(sched, p)

Next == \E p \in Procs : Run(p)
Spec == Init /\ [][Next]_vars /\ WF_vars(Next)

Sequential(p, n) == [k \in 1..n |-> <<p, k>>]
\* every thread computes what it computes when run alone
C10_Isolated == \A p \in Procs : acc[p] = Sequential(p, pc[p])
C10_AllFinish == <>(\A p \in Procs : pc[p] = Blocks)
Done == \A p \in Procs : pc[p] = Blocks
=============================================================================
