------------------------- MODULE Trace_DangerSpace -------------------------
(* Code -> spec: each line of the trace is one observed call of            *)
(* HitResult.danger_space on a real extra-data trajectory, projected to    *)
(*   cls : per-row classification against the target row (see Ops)         *)
(*   t   : 1-based index of the target row (0 = range beyond trajectory)   *)
(*   b,e : 1-based indices of the reported begin / end rows (0 = none)     *)
(*   at  : 1-based index of the row reported as the target row             *)
(*   err : "none" | "ArithmeticError" | other exception name               *)
(*   grp, hrank : calls with equal grp share trajectory and range; hrank   *)
(*         orders them by target height (monotonicity clause)              *)
(* The monitor is total: it consumes every line and accumulates the names  *)
(* of failed clauses.                                                      *)
EXTENDS DangerSpaceOps, Json, IOUtils, TLC

Trace == ndJsonDeserialize(IOEnv.TRACE_FILE)

VARIABLES l, fails, prev
tvars == <<l, fails, prev>>

Clauses(r, p) ==
  (IF r.t = 0 /\ r.err # "ArithmeticError" THEN {"C16.BeyondNotError"} ELSE {}) \cup
  (IF r.t > 0 /\ r.err # "none" THEN {"C16.UnexpectedError"} ELSE {}) \cup
  (IF r.t > 0 /\ r.err = "none" /\ ~AdmissibleC(r.cls, r.t, r.b, r.e) THEN {"C16.NotAdmissible"} ELSE {}) \cup
  \* the target row is the first row at or beyond the requested range (at = index of the row the result names)
  (IF r.t > 0 /\ r.err = "none" /\ r.at # r.t THEN {"C16.WrongTargetRow"} ELSE {}) \cup
  (IF r.t > 0 /\ r.err = "none" /\ p.grp = r.grp /\ p.hrank <= r.hrank /\ (r.b > p.b \/ r.e < p.e)
   THEN {"C16.ShrinksWithHeight"} ELSE {})

TraceInit == l = 1 /\ fails = {} /\ prev = [grp |-> -1, hrank |-> 0, b |-> 0, e |-> 0]
TraceNext ==
  /\ l <= Len(Trace)
  /\ LET r == Trace[l] IN
       /\ fails' = fails \cup {<<r.id, c>> : c \in Clauses(r, prev)}
       /\ prev' = IF r.t > 0 /\ r.err = "none" THEN [grp |-> r.grp, hrank |-> r.hrank, b |-> r.b, e |-> r.e] ELSE prev
  /\ l' = l + 1
TraceSpec == TraceInit /\ [][TraceNext]_tvars

Report == (l = Len(Trace) + 1) => PrintT(<<"RESULT", ToJson([consumed |-> l - 1, fails |-> fails])>>)
=============================================================================
