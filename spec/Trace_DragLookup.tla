-------------------------- MODULE Trace_DragLookup --------------------------
(* Code -> spec for C09: each line is one drag query on a shipped or custom *)
(* table: n nodes, the cells the query lies in (computed from the table by  *)
(* the projection, with an ulp band at nodes), the set of pieces on which   *)
(* the returned value lies (exact rational evaluation of every piece), and  *)
(* the boolean clauses of the statement.                                    *)
EXTENDS DragLookupOps, Json, IOUtils, TLC
Trace == ndJsonDeserialize(IOEnv.TRACE_FILE)
Range(s) == {s[j] : j \in DOMAIN s}
VARIABLES l, fails
tvars == <<l, fails>>
If(c, name) == IF c THEN {name} ELSE {}
Clauses(r) ==
  If(~(\E i \in Range(r.cells), p \in Range(r.pieces) : p \in AdmissiblePieces(r.n, i)), "C09.PieceNotThroughNeighbours") \cup
  If(r.atNode /\ ~r.nodeExact, "C09.NodeValueDiffers") \cup
  If(~r.positive, "C09.NotPositive") \cup
  If(r.shipped /\ ~r.within5pct, "C09.FarFromLinearInterpolant") \cup
  If(~r.constOK, "C09.RetardationConstant")
TraceInit == l = 1 /\ fails = {}
TraceNext == /\ l <= Len(Trace) /\ l' = l + 1
             /\ fails' = fails \cup {<<Trace[l].id, c>> : c \in Clauses(Trace[l])}
TraceSpec == TraceInit /\ [][TraceNext]_tvars
Report == (l = Len(Trace) + 1) => PrintT(<<"RESULT", ToJson([consumed |-> l - 1, fails |-> fails])>>)
=============================================================================
