-------------------------- MODULE Trace_Integrator --------------------------
(***************************************************************************)
(* Code -> spec: total monitor for hook traces of TrajectoryCalc._integrate*)
(* (one Begin, then one Iter line per loop iteration - identical           *)
(* consecutive iterations without rows are run-length encoded with rep -   *)
(* then Raise?, then End).  Many calls (field tid) are batched in one      *)
(* file.  Every Iter line carries the OBSERVATION o of IntegratorOps       *)
(* (interval valued where floats are within a few ulps of a threshold) and *)
(* the code's REACTION (flags raised, multiple recorded, rows appended,    *)
(* which segment's wind was used, ...).  The monitor re-runs the           *)
(* controller operators of IntegratorOps on the observation, compares, and *)
(* accumulates the names of the clauses that fail; it then FOLLOWS the     *)
(* code's reaction so that one mismatch does not cascade.                  *)
(***************************************************************************)
EXTENDS IntegratorOps, Json, IOUtils, TLC

Trace == ndJsonDeserialize(IOEnv.TRACE_FILE)
Range(s) == {s[j] : j \in DOMAIN s}

VARIABLES l, fails, m
tvars == <<l, fails, m>>

\* monitor state of the call being validated
Idle == [phase |-> "idle", tid |-> -1, req |-> [rec |-> FALSE, timed |-> FALSE, extra |-> FALSE],
         ctl |-> InitCtl(1, TRUE), Klo |-> 0, Khi |-> 0, beyondOK |-> FALSE,
         lastK |-> -1, lastTr |-> -1, lastTrR |-> -1, nRows |-> 0, nRange |-> 0, pendLo |-> {}, pendHi |-> {},
         allFwd |-> TRUE, allAdvLe |-> TRUE, nIter |-> 0]

Missing(f)  == CASE f = "R" -> "C03.MissingRow" [] f = "U" -> "C15.MissingUp" [] f = "D" -> "C15.MissingDown" [] f = "M" -> "C15.MissingMach"
Spurious(f) == CASE f = "R" -> "C03.SpuriousRow" [] f = "U" -> "C15.SpuriousUp" [] f = "D" -> "C15.SpuriousDown" [] f = "M" -> "C15.SpuriousMach"

If(c, name) == IF c THEN {name} ELSE {}

BeginClauses(r) ==
  If(~r.muzzleRowOK, "C03.MuzzleRow") \cup
  \* the solver works on the range and step the caller asked for (to unit-conversion rounding): an entry point that trims or
  \* rounds them changes which multiples are owed
  If(~r.requestKept, "C03.RequestNotPassedOn") \cup
  \* ... and records what was asked for: events exactly when extra data was requested
  If(~r.extraKept, "C15.ExtraDataRequestNotPassedOn") \cup
  If(r.defaultStep /\ ~(r.Klo <= 11 /\ 11 <= r.Khi), "C03.DefaultStepEleven")

OnBegin(r) ==
  [Idle EXCEPT !.phase = "running", !.tid = r.tid,
               !.req = [rec |-> r.rec, timed |-> r.timed, extra |-> r.extra],
               !.ctl = InitCtl(r.muzzleSide, r.barrelAbove),
               !.Klo = r.Klo, !.Khi = r.Khi, !.beyondOK = r.beyondOK]

IterClauses(s, r) ==
  LET o    == r
      fl   == Range(r.fl)
      must == MustFlags(s.ctl, o, s.req)
      may  == MayFlags(s.ctl, o, s.req)
      byDist == "R" \in fl /\ RangeMay(s.ctl, o, s.req) /\ (r.k >= 0 \/ RangeMust(s.ctl, o, s.req) \/ ~TimeMay(s.ctl, o, s.req))
      emits == Emits(fl, s.req)
      after == StepCtl(s.ctl, o, fl, r.k)
  IN If(s.phase # "running", "Trace.Protocol") \cup
     If(s.pendLo # {}, "C04.MissedLimit") \cup
     If(~r.contMay /\ ~Owed(s.ctl, s.req, s.Khi), "C03.IterationBeyondRange") \cup
     {Missing(f) : f \in must \ fl} \cup {Spurious(f) : f \in fl \ may} \cup
     If(byDist /\ r.k < 0, "C03.RowDistanceNotMultiple") \cup
     If(byDist /\ r.k >= 0 /\ ~KAdmissible(s.ctl, o, r.k), "C03.SkippedMultiple") \cup
     If(byDist /\ r.k >= 0 /\ ~r.interpOK, "C03.RowNotOnStep") \cup
     If(r.nrows = 1 /\ ~emits, "C11.RowWithoutFlag") \cup
     If(r.nrows = 0 /\ emits, "C11.FlaggedRowMissing") \cup
     If(r.nrows > 1, "C11.SeveralRowsInOneIteration") \cup
     If(r.nrows = 1 /\ ~r.rowFlagOK, "C15.RowFlagMismatch") \cup
     If(~(\E sg \in Range(r.windIs) : SegAdmissible(o, sg)), "C12.WrongSegment") \cup
     If(~r.airOK, "C18.StepBound") \cup
     If(r.nrows = 1 /\ r.tr < s.lastTr, "C15.RowOrder") \cup
     If(r.nrows = 1 /\ byDist /\ r.k >= 0 /\ (r.k <= s.lastK \/ r.tr <= s.lastTrR), "C03.NotIncreasing") \cup
     If(r.nrows = 1 /\ ({"U", "D"} \cap fl) # {} /\ ~r.nearLine, "C15.NotWithinOneStep") \cup
     If(r.nrows = 1 /\ "M" \in fl /\ ~r.nearSonic, "C15.NotWithinOneStep") \cup
     If(s.req.timed /\ ~r.gapOK, "C03.TimeGap") \cup
     If(r.nrows = 1 /\ Range(r.rowViolLo) # {}, "C04.EarlierRowViolatesLimit") \cup
     \* a run-length encoded line stands for rep identical iterations: the state reached after the first must be a
     \* fixed point; a flag the controller still owes after it is owed in every one of them
     (IF r.rep > 1 THEN {Missing(f) : f \in MustFlags(after, o, s.req)} ELSE {}) \cup
     If(r.rep > 1 /\ (fl # {} \/ r.nrows # 0 \/ s.req.timed), "Trace.RunLength")

OnIter(s, r) ==
  LET fl == Range(r.fl) IN
  [s EXCEPT !.ctl = StepCtl(s.ctl, r, fl, r.k),
            !.lastK = IF "R" \in fl /\ r.k >= 0 THEN r.k ELSE s.lastK,
            !.lastTr = IF r.nrows >= 1 THEN r.tr ELSE s.lastTr,
            !.lastTrR = IF r.nrows >= 1 /\ "R" \in fl /\ r.k >= 0 THEN r.tr ELSE s.lastTrR,
            !.nRows = s.nRows + r.nrows,
            !.nRange = s.nRange + (IF "R" \in fl THEN r.nrows ELSE 0),
            !.pendLo = Range(r.violLo), !.pendHi = Range(r.violHi),
            !.allFwd = s.allFwd /\ r.fwd, !.allAdvLe = s.allAdvLe /\ (r.advLeStep \/ ~r.airOK),
            !.nIter = s.nIter + r.rep]

RaiseClauses(s, r) ==
  If(s.phase # "running", "Trace.Protocol") \cup
  If(s.pendHi = {}, "C04.SpuriousRaise") \cup
  If(s.pendHi # {} /\ r.reason \notin s.pendHi, "C04.ReasonNotViolated") \cup
  If(r.reason \in s.pendHi /\ ~ReasonAdmissible(r.reason, s.pendLo, s.pendHi), "C04.ReasonPrecedence") \cup
  If(r.reason \notin Range(r.rowViolHi), "C04.ReasonTruthful") \cup
  If(~r.lastDistOK, "C04.LastDistance") \cup
  If(~r.rowIsLast, "C04.TerminalRowNotLast")

EndClauses(s, r) ==
  LET done == r.outcome = "Done"
      \* precondition of the end-of-run clauses of C03.  A ground advance beyond the record step excuses the run only when the
      \* WIND made it (the air-relative advance kept to the configured maximum step): the statement's premise is about the
      \* configured step, so a step the solver itself made too long excuses nothing
      c03  == done /\ s.req.rec /\ s.allFwd /\ s.allAdvLe
  IN If(s.phase \notin {"running", "raised"}, "Trace.Protocol") \cup
     If(done /\ s.phase = "raised", "Trace.Protocol") \cup
     If(~done /\ s.phase # "raised", "Trace.Protocol") \cup
     If(done /\ s.pendLo # {}, "C04.MissedLimit") \cup
     If(done /\ ~r.reachedMay, "C04.ReachedRangeWhenNoError") \cup
     If(c03 /\ s.ctl.nextRec < s.Klo, "C03.LastMultipleMissing") \cup
     \* at most one further multiple, and only if it lies within one integration step beyond the range
     If(c03 /\ s.ctl.nextRec > s.Khi + (IF s.beyondOK THEN 1 ELSE 0), "C03.TooManyBeyond") \cup
     \* the closing row: appended exactly when fewer than two RANGE rows were recorded (event rows of an extra-data
     \* request do not count: the plain request of the same shot gets the closing row, so must the extra-data one, C11)
     If(done /\ r.tail # (s.nRange < 2), "C03.TailRow") \cup
     \* the closing row is the bare final state: a flag on it would repeat an event (or a range record) already reported
     If(done /\ r.tail /\ Range(r.tailFl) # {}, "C15.ClosingRowFlagged") \cup
     If(r.nRows # s.nRows + (IF r.tail THEN 1 ELSE 0) + (IF s.phase = "raised" THEN 1 ELSE 0), "Trace.RowCount") \cup
     If(r.nIter # s.nIter, "Trace.IterCount")

\* paired / metamorphic observations computed by the projection from two (or more) runs
PairClauses(r) == If(~r.ok, r.clause)

TraceInit == l = 1 /\ fails = {} /\ m = Idle

TraceNext ==
  /\ l <= Len(Trace)
  /\ l' = l + 1
  /\ LET r == Trace[l] IN
       CASE r.ev = "Begin" -> /\ fails' = fails \cup {<<r.tid, c>> : c \in BeginClauses(r) \cup If(m.phase \notin {"idle"}, "Trace.Protocol")}
                              /\ m' = OnBegin(r)
         [] r.ev = "Iter"  -> /\ fails' = fails \cup {<<r.tid, c>> : c \in IterClauses(m, r) \cup If(r.tid # m.tid, "Trace.Protocol")}
                              /\ m' = OnIter(m, r)
         [] r.ev = "Raise" -> /\ fails' = fails \cup {<<r.tid, c>> : c \in RaiseClauses(m, r)}
                              /\ m' = [m EXCEPT !.phase = "raised", !.pendLo = {}, !.pendHi = {}]
         [] r.ev = "End"   -> /\ fails' = fails \cup {<<r.tid, c>> : c \in EndClauses(m, r)}
                              /\ m' = Idle
         [] r.ev = "Pair"  -> /\ fails' = fails \cup {<<r.tid, c>> : c \in PairClauses(r)}
                              /\ m' = m
TraceSpec == TraceInit /\ [][TraceNext]_tvars

Report == (l = Len(Trace) + 1) => PrintT(<<"RESULT", ToJson([consumed |-> l - 1, fails |-> fails])>>)
=============================================================================
