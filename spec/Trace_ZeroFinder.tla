-------------------------- MODULE Trace_ZeroFinder --------------------------
(* Code -> spec for C02: per zeroing call one ZBegin line (is the aim point  *)
(* reachable; stored zero token), one ZIter per iteration (errOK as logged   *)
(* by hook H2), one ZEnd (outcome, stored zero unchanged?, and - when it     *)
(* returned - whether the trajectory then fired hits the aim point within    *)
(* the statement's bound).  Total monitor, same NextPhase operator.          *)
EXTENDS ZeroFinderOps, Json, IOUtils, TLC
Trace == ndJsonDeserialize(IOEnv.TRACE_FILE)
VARIABLES l, fails, z
tvars == <<l, fails, z>>
If(c, name) == IF c THEN {name} ELSE {}
Idle == [phase |-> "Idle", tid |-> -1, iter |-> 0, errOK |-> FALSE, reachable |-> FALSE, maxIter |-> 0]

IterClauses(s, r) ==
  If(s.phase # "Iterating", "C02.IterationAfterExit") \cup
  If(s.iter + 1 > s.maxIter, "C02.IterationCapExceeded")

EndClauses(s, r) ==
  LET expected == IF s.iter = 0 THEN "Iterating" ELSE s.phase IN
  If(r.outcome = "Returned" /\ expected # "Returned", "C02.ReturnedWithoutMeetingAccuracy") \cup
  If(r.outcome = "ZeroErr" /\ expected = "Returned", "C02.RaisedAlthoughAccuracyMet") \cup
  If(r.outcome = "ZeroErr" /\ expected = "Iterating" /\ s.iter < s.maxIter, "C02.GaveUpBeforeIterationCap") \cup
  If(r.outcome \notin {"Returned", "ZeroErr", "RangeErr"}, "C02.UnexpectedException") \cup
  If(s.reachable /\ r.outcome # "Returned", "C02.FailsOnReachableTarget") \cup
  If(r.outcome = "Returned" /\ r.observed /\ ~r.missOK, "C02.ReturnedElevationMisses") \cup
  \* an angle was returned, but the trajectory fired with it ends (range error) before the aim point's distance: the target
  \* was out of reach and an error was due instead of an angle
  If(r.outcome = "Returned" /\ ~r.reaches, "C02.ReturnedForUnreachableTarget") \cup
  If(r.outcome # "Returned" /\ ~r.storedSame, "C02.FailedZeroChangedStoredZero") \cup
  \* the error raised by a failed search reports the search that was made (trials, last error, last elevation)
  If(r.outcome = "ZeroErr" /\ ~r.errorTruthful, "C02.ErrorMisreportsTheSearch") \cup
  If(r.outcome = "Returned" /\ ~r.storedIsResult, "C02.StoredZeroNotTheResult")

TraceInit == l = 1 /\ fails = {} /\ z = Idle
TraceNext ==
  /\ l <= Len(Trace) /\ l' = l + 1
  /\ LET r == Trace[l] IN
       CASE r.ev = "ZBegin" -> /\ fails' = fails
                               /\ z' = [Idle EXCEPT !.phase = "Iterating", !.tid = r.tid, !.reachable = r.reachable, !.maxIter = r.maxIter]
         [] r.ev = "ZIter"  -> /\ fails' = fails \cup {<<r.tid, c>> : c \in IterClauses(z, r)}
                               /\ z' = [z EXCEPT !.iter = z.iter + 1, !.errOK = r.errOK,
                                                 !.phase = NextPhase(r.errOK, z.iter + 1, z.maxIter)]
         [] r.ev = "ZEnd"   -> /\ fails' = fails \cup {<<r.tid, c>> : c \in EndClauses(z, r)}
                               /\ z' = Idle
TraceSpec == TraceInit /\ [][TraceNext]_tvars
Report == (l = Len(Trace) + 1) => PrintT(<<"RESULT", ToJson([consumed |-> l - 1, fails |-> fails])>>)
=============================================================================
