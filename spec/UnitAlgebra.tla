----------------------------- MODULE UnitAlgebra -----------------------------
(***************************************************************************)
(* C06 - unit conversions agree with the SI definitions and invert.        *)
(*                                                                         *)
(* The table below is the ONLY place where the definitions of the 41 units *)
(* live (the harness has no numbers of its own): each unit is defined by   *)
(* the value of 1 unit in the SI unit of its dimension, as an exact        *)
(* FACTORED rational  (product of num) / (product of den) * pi^pi  (TLC    *)
(* integers are 32 bit, so products are never multiplied out; they are     *)
(* kept as bags of integer factors and cancelled syntactically).           *)
(*   lin  : value_SI = x * factor                                          *)
(*   aff  : kelvin   = (x + off/100) * factor          (temperature scales)*)
(*   atan : radian   = arctan(x / K)        (inch per 100 yd, cm per 100 m)*)
(*                                                                         *)
(* Exact definitions used: inch = 0.0254 m, pound = 0.45359237 kg, grain = *)
(* 64.79891 mg, nautical mile = 1852 m, standard gravity g0 = 9.80665      *)
(* m/s^2 (newton as weight unit: 1 N = 1/g0 kg-force; foot-pound and psi   *)
(* through lbf = lb*g0), conventional mmHg = 13595.1 kg/m^3 * g0 * 1 mm,   *)
(* inHg = 25.4 mmHg, degree = pi/180, MOA = pi/10800, NATO mil = pi/3200,  *)
(* thousandth = pi/3000, o'clock hour = pi/6.                              *)
(*                                                                         *)
(* The state machine is a conversion chain: a quantity starts in some unit *)
(* and is converted, step by step, to other units of its dimension.  The   *)
(* accumulated map must not depend on the path (A->B->C = A->C) and        *)
(* returning to the start unit must give the identity (round trip).        *)
(***************************************************************************)
EXTENDS Integers, Sequences, FiniteSets, Bags, TLC

CONSTANT MaxChain     \* longest conversion chain explored

U(n, dm, k, nm, dn, p, o) == [name |-> n, dim |-> dm, kind |-> k, num |-> nm, den |-> dn, pi |-> p, off |-> o]

G0N == <<980665>>     \* g0 = 980665 / 100000
G0D == <<100000>>

UnitTable == <<
  \* ---- angular, SI unit radian
  U("Radian",         "angular",  "lin",  <<>>,        <<>>,           0, 0),
  U("Degree",         "angular",  "lin",  <<>>,        <<180>>,        1, 0),
  U("MOA",            "angular",  "lin",  <<>>,        <<10800>>,      1, 0),
  U("Mil",            "angular",  "lin",  <<>>,        <<3200>>,       1, 0),
  U("MRad",           "angular",  "lin",  <<>>,        <<1000>>,       0, 0),
  U("Thousandth",     "angular",  "lin",  <<>>,        <<3000>>,       1, 0),
  U("InchesPer100Yd", "angular",  "atan", <<>>,        <<3600>>,       0, 0),
  U("CmPer100m",      "angular",  "atan", <<>>,        <<10000>>,      0, 0),
  U("OClock",         "angular",  "lin",  <<>>,        <<6>>,          1, 0),
  \* ---- distance, SI unit metre
  U("Inch",           "distance", "lin",  <<254>>,     <<10000>>,      0, 0),
  U("Foot",           "distance", "lin",  <<12, 254>>, <<10000>>,      0, 0),
  U("Yard",           "distance", "lin",  <<36, 254>>, <<10000>>,      0, 0),
  U("Mile",           "distance", "lin",  <<63360, 254>>, <<10000>>,   0, 0),
  U("NauticalMile",   "distance", "lin",  <<1852>>,    <<>>,           0, 0),
  U("Millimeter",     "distance", "lin",  <<>>,        <<1000>>,       0, 0),
  U("Centimeter",     "distance", "lin",  <<>>,        <<100>>,        0, 0),
  U("Meter",          "distance", "lin",  <<>>,        <<>>,           0, 0),
  U("Kilometer",      "distance", "lin",  <<1000>>,    <<>>,           0, 0),
  U("Line",           "distance", "lin",  <<254>>,     <<10000, 10>>,  0, 0),
  \* ---- energy, SI unit joule; foot-pound = lb * g0 * ft
  U("FootPound",      "energy",   "lin",  <<45359237, 980665, 3048>>, <<100000000, 100000, 10000>>, 0, 0),
  U("Joule",          "energy",   "lin",  <<>>,        <<>>,           0, 0),
  \* ---- pressure, SI unit pascal; mmHg = 13595.1 * g0 / 1000, psi = lb * g0 / inch^2
  U("MmHg",           "pressure", "lin",  <<135951, 980665>>, <<10, 100000, 1000>>, 0, 0),
  U("InHg",           "pressure", "lin",  <<254, 135951, 980665>>, <<10, 10, 100000, 1000>>, 0, 0),
  U("Bar",            "pressure", "lin",  <<100000>>,  <<>>,           0, 0),
  U("hPa",            "pressure", "lin",  <<100>>,     <<>>,           0, 0),
  U("PSI",            "pressure", "lin",  <<45359237, 980665, 10000, 10000>>, <<100000000, 100000, 254, 254>>, 0, 0),
  \* ---- temperature, SI unit kelvin = (x + off/100) * num/den
  U("Fahrenheit",     "temperature", "aff", <<5>>,     <<9>>,          0, 45967),
  U("Celsius",        "temperature", "aff", <<>>,      <<>>,           0, 27315),
  U("Kelvin",         "temperature", "aff", <<>>,      <<>>,           0, 0),
  U("Rankin",         "temperature", "aff", <<5>>,     <<9>>,          0, 0),
  \* ---- velocity, SI unit metre per second
  U("MPS",            "velocity", "lin",  <<>>,        <<>>,           0, 0),
  U("KMH",            "velocity", "lin",  <<1000>>,    <<3600>>,       0, 0),
  U("FPS",            "velocity", "lin",  <<3048>>,    <<10000>>,      0, 0),
  U("MPH",            "velocity", "lin",  <<63360, 254>>, <<10000, 3600>>, 0, 0),
  U("KT",             "velocity", "lin",  <<1852>>,    <<3600>>,       0, 0),
  \* ---- weight, SI unit kilogram
  U("Grain",          "weight",   "lin",  <<6479891>>, <<100000, 1000000>>, 0, 0),
  U("Ounce",          "weight",   "lin",  <<4375, 6479891>>, <<10, 100000, 1000000>>, 0, 0),
  U("Gram",           "weight",   "lin",  <<>>,        <<1000>>,       0, 0),
  U("Pound",          "weight",   "lin",  <<45359237>>, <<100000000>>, 0, 0),
  U("Kilogram",       "weight",   "lin",  <<>>,        <<>>,           0, 0),
  U("Newton",         "weight",   "lin",  <<100000>>,  <<980665>>,     0, 0)
>>

N == Len(UnitTable)
Idx == 1..N
Dims == {UnitTable[i].dim : i \in Idx}
SameDim(i, j) == UnitTable[i].dim = UnitTable[j].dim

---------------------------------------------------------------------------
(* factored rationals as pairs of bags                                     *)
SeqBag(s) == LET R == {s[i] : i \in DOMAIN s}
             IN [x \in R |-> Cardinality({i \in DOMAIN s : s[i] = x})]
\* bag subtraction of the standard module truncates at 0: cancel common factors
Cancel(n, d) == <<n (-) d, d (-) n>>
FMul(f, g) == LET c == Cancel(f.n (+) g.n, f.d (+) g.d)
              IN [n |-> c[1], d |-> c[2], pi |-> f.pi + g.pi]
FOne == [n |-> EmptyBag, d |-> EmptyBag, pi |-> 0]
\* multiplicative factor of the map  unit i -> unit j  (SI value of 1 i, divided by SI value of 1 j)
Factor(i, j) == LET a == UnitTable[i] b == UnitTable[j]
                    c == Cancel(SeqBag(a.num) (+) SeqBag(b.den), SeqBag(a.den) (+) SeqBag(b.num))
                IN [n |-> c[1], d |-> c[2], pi |-> a.pi - b.pi]

\* the SI definitions themselves must be consistent with the familiar integer ratios (sanity of the table)
RECURSIVE BagProd(_)
BagProd(b) == IF DOMAIN b = {} THEN 1
              ELSE LET x == CHOOSE y \in DOMAIN b : TRUE IN x * BagProd(b (-) SetToBag({x}))
\* 1 unit i = p/q unit j  (the residual factors after cancellation are small enough to multiply out)
Ratio(i, j, p, q) == LET f == Factor(i, j) IN f.pi = 0 /\ BagProd(f.n) * q = BagProd(f.d) * p
ByName(nm) == CHOOSE i \in Idx : UnitTable[i].name = nm
TableSane ==
  /\ Ratio(ByName("Foot"), ByName("Inch"), 12, 1)
  /\ Ratio(ByName("Yard"), ByName("Foot"), 3, 1)
  /\ Ratio(ByName("Mile"), ByName("Yard"), 1760, 1)
  /\ Ratio(ByName("Inch"), ByName("Line"), 10, 1)
  /\ Ratio(ByName("Ounce"), ByName("Grain"), 4375, 10)
  /\ Ratio(ByName("InHg"), ByName("MmHg"), 254, 10)
  /\ Ratio(ByName("Bar"), ByName("hPa"), 1000, 1)
  /\ Ratio(ByName("Degree"), ByName("MOA"), 60, 1)
  /\ Ratio(ByName("OClock"), ByName("Degree"), 30, 1)
  /\ Ratio(ByName("KT"), ByName("KMH"), 1852, 1000)
  /\ Cardinality({UnitTable[i].name : i \in Idx}) = N
  /\ N = 41 /\ Cardinality(Dims) = 7

---------------------------------------------------------------------------
(* conversion chains                                                       *)
VARIABLES start, cur, acc, len
vars == <<start, cur, acc, len>>

Linear(i) == UnitTable[i].kind = "lin"

Init == /\ start \in Idx /\ cur = start /\ acc = FOne /\ len = 0

Convert(j) ==
  /\ len < MaxChain /\ SameDim(cur, j) /\ j # cur
  /\ UnitTable[cur].kind = UnitTable[j].kind       \* multiplicative part; affine offsets and atan are applied by the binding
  /\ acc' = FMul(acc, Factor(cur, j))
  /\ cur' = j /\ len' = len + 1 /\ UNCHANGED start

Next == \E j \in Idx : Convert(j)
Spec == Init /\ [][Next]_vars

\* A -> B -> C equals A -> C, whatever the path
C06_PathIndependent == acc = Factor(start, cur)
\* coming back to the start unit is the identity
C06_RoundTrip == (cur = start) => acc = FOne
C06_TableSane == TableSane

(* enumeration of the discrete space the property quantifies over *)
Pairs == {<<i, j>> \in Idx \X Idx : SameDim(i, j)}
Triples == {<<i, j, k>> \in Idx \X Idx \X Idx : SameDim(i, j) /\ SameDim(j, k)}
=============================================================================
