------------------------------ MODULE UnitNames ------------------------------
(***************************************************************************)
(* C18 (names) - every unit's enumeration name and every alias of the      *)
(* documented alias table, in any letter case, with surrounding blanks or  *)
(* behind a numeric prefix, through every entry point that accepts a unit  *)
(* as a string, resolves to that unit; unknown names raise or leave the    *)
(* settings unchanged.                                                     *)
(*                                                                         *)
(* GOLDEN TABLE.  Transcribed once from the documented alias table         *)
(* (UnitAliases) of the pinned tree - with the one entry that the pinned   *)
(* tree leaves unsplit, 'in/100yard, inper100yd', written as the two       *)
(* aliases it documents - and never regenerated from the code under test.  *)
(* Non-ASCII aliases are given as code points (AU) with an ASCII label.    *)
(*                                                                         *)
(* The state machine is the preferred-unit slot of the corresponding       *)
(* dimension: Apply(entry point, name, spelling variant) must leave it     *)
(* holding the golden unit (setters) / return a quantity in the golden     *)
(* unit (parsers); an unknown name must leave it unchanged or raise.       *)
(***************************************************************************)
EXTENDS Integers, Sequences, FiniteSets, TLC

A(n, u)      == [name |-> n, cp |-> <<>>, unit |-> u, known |-> TRUE]
AU(cp, n, u) == [name |-> n, cp |-> cp, unit |-> u, known |-> TRUE]
X(n)         == [name |-> n, cp |-> <<>>, unit |-> "none", known |-> FALSE]

EnumNames == <<"Radian", "Degree", "MOA", "Mil", "MRad", "Thousandth", "InchesPer100Yd", "CmPer100m", "OClock", "Inch", "Foot", "Yard", "Mile", "NauticalMile", "Millimeter", "Centimeter", "Meter", "Kilometer", "Line", "FootPound", "Joule", "MmHg", "InHg", "Bar", "hPa", "PSI", "Fahrenheit", "Celsius", "Kelvin", "Rankin", "MPS", "KMH", "FPS", "MPH", "KT", "Grain", "Ounce", "Gram", "Pound", "Kilogram", "Newton">>

AliasTable == <<
  A("radian", "Radian"),
  A("rad", "Radian"),
  A("degree", "Degree"),
  A("deg", "Degree"),
  A("moa", "MOA"),
  A("mil", "Mil"),
  A("mrad", "MRad"),
  A("thousandth", "Thousandth"),
  A("ths", "Thousandth"),
  A("inch/100yd", "InchesPer100Yd"),
  A("in/100yd", "InchesPer100Yd"),
  A("in/100yard", "InchesPer100Yd"),
  A("inper100yd", "InchesPer100Yd"),
  A("centimeter/100m", "CmPer100m"),
  A("cm/100m", "CmPer100m"),
  A("cm/100meter", "CmPer100m"),
  A("centimeter/100meter", "CmPer100m"),
  A("cmper100m", "CmPer100m"),
  A("hour", "OClock"),
  A("h", "OClock"),
  A("inch", "Inch"),
  A("in", "Inch"),
  A("foot", "Foot"),
  A("feet", "Foot"),
  A("ft", "Foot"),
  A("yard", "Yard"),
  A("yd", "Yard"),
  A("mile", "Mile"),
  A("mi", "Mile"),
  A("mi.", "Mile"),
  A("nauticalmile", "NauticalMile"),
  A("nm", "NauticalMile"),
  A("nmi", "NauticalMile"),
  A("millimeter", "Millimeter"),
  A("mm", "Millimeter"),
  A("centimeter", "Centimeter"),
  A("cm", "Centimeter"),
  A("meter", "Meter"),
  A("m", "Meter"),
  A("kilometer", "Kilometer"),
  A("km", "Kilometer"),
  A("line", "Line"),
  A("ln", "Line"),
  AU(<<108, 105, 110, 105, 1072>>, "lini?", "Line"),
  A("footpound", "FootPound"),
  A("foot-pound", "FootPound"),
  AU(<<102, 116, 8901, 108, 98, 102>>, "ft?lbf", "FootPound"),
  AU(<<102, 116, 8901, 108, 98>>, "ft?lb", "FootPound"),
  A("foot*pound", "FootPound"),
  A("ft*lbf", "FootPound"),
  A("ft*lb", "FootPound"),
  A("joule", "Joule"),
  A("J", "Joule"),
  A("mmHg", "MmHg"),
  A("inHg", "InHg"),
  AU(<<8243, 72, 103>>, "?Hg", "InHg"),
  A("bar", "Bar"),
  A("hectopascal", "hPa"),
  A("hPa", "hPa"),
  A("psi", "PSI"),
  A("lbf/in2", "PSI"),
  A("fahrenheit", "Fahrenheit"),
  AU(<<176, 70>>, "?F", "Fahrenheit"),
  A("F", "Fahrenheit"),
  A("degF", "Fahrenheit"),
  A("celsius", "Celsius"),
  AU(<<176, 67>>, "?C", "Celsius"),
  A("C", "Celsius"),
  A("degC", "Celsius"),
  A("kelvin", "Kelvin"),
  AU(<<176, 75>>, "?K", "Kelvin"),
  A("K", "Kelvin"),
  A("degK", "Kelvin"),
  A("rankin", "Rankin"),
  AU(<<176, 82>>, "?R", "Rankin"),
  A("R", "Rankin"),
  A("degR", "Rankin"),
  A("meter/second", "MPS"),
  A("m/s", "MPS"),
  A("meter/s", "MPS"),
  A("m/second", "MPS"),
  A("mps", "MPS"),
  A("kilometer/hour", "KMH"),
  A("km/h", "KMH"),
  A("kilometer/h", "KMH"),
  A("km/hour", "KMH"),
  A("kmh", "KMH"),
  A("foot/second", "FPS"),
  A("feet/second", "FPS"),
  A("ft/s", "FPS"),
  A("foot/s", "FPS"),
  A("feet/s", "FPS"),
  A("ft/second", "FPS"),
  A("fps", "FPS"),
  A("mile/hour", "MPH"),
  A("mi/h", "MPH"),
  A("mile/h", "MPH"),
  A("mi/hour", "MPH"),
  A("mph", "MPH"),
  A("knot", "KT"),
  A("kn", "KT"),
  A("kt", "KT"),
  A("grain", "Grain"),
  A("gr", "Grain"),
  A("grn", "Grain"),
  A("ounce", "Ounce"),
  A("oz", "Ounce"),
  A("gram", "Gram"),
  A("g", "Gram"),
  A("pound", "Pound"),
  A("lb", "Pound"),
  A("kilogram", "Kilogram"),
  A("kilogramme", "Kilogram"),
  A("kg", "Kilogram"),
  A("newton", "Newton"),
  A("N", "Newton")
>>

\* names that are not units: near misses, attribute names of the PreferredUnits class, empty and junk strings
UnknownTable == <<
  X("defaults"), X("set"), X("parsec"), X("metre"), X("inchs"), X("radians"), X("degre"), X("gs"), X("kgs"),
  X("footpounds"), X("m/"), X("/s"), X("unit"), X("none"), X("xyz"), X("__class__"), X("mro")
>>

Names == [i \in 1..Len(EnumNames) |-> A(EnumNames[i], EnumNames[i])] \o AliasTable \o UnknownTable

Cases    == {"asis", "lower", "upper", "title"}
Blanks   == {"none", "lead", "trail", "both"}
\* the number grammar of a value string: an optional minus sign, then digits | digits "." | digits "." digits | "." digits
\* - every form with and without the sign, plus leading / trailing zeros
Prefixes == {"1", "-1", "2.5", "-2.5", ".5", "-.5", "3.", "-3.", "007.250", "-0"}
Entries  == {"parse_unit", "set_pref", "value_with_prefix", "value_preferred_name", "config_file_preferred",
             "config_file_step_units"}

VARIABLES entry, idx, case, blank, prefix, slot, outcome
vars == <<entry, idx, case, blank, prefix, slot, outcome>>

Init == /\ entry \in Entries /\ idx \in 1..Len(Names) /\ case \in Cases /\ blank \in Blanks
        /\ prefix \in (IF entry \in {"value_with_prefix", "value_preferred_name"} THEN Prefixes ELSE {"1"})
        /\ slot = "Initial" /\ outcome = "pending"

\* what the entry point must do with the name
Apply ==
  /\ outcome = "pending"
  /\ LET n == Names[idx] IN
       IF n.known
       THEN /\ outcome' = n.unit                               \* resolved / returned unit
            /\ slot' = IF entry \in {"set_pref", "config_file_preferred", "config_file_step_units"} THEN n.unit ELSE slot
       ELSE /\ outcome' = "unknown"                            \* raises, returns nothing, or is ignored with a warning
            /\ slot' = slot                                    \* and never changes a setting
  /\ UNCHANGED <<entry, idx, case, blank, prefix>>

Next == Apply
Spec == Init /\ [][Next]_vars

\* the table is a function: one spelling never names two units (case-insensitively checked by the binding)
C18_TableFunctional ==
  \A i, j \in 1..Len(AliasTable) :
     (AliasTable[i].cp = <<>> /\ AliasTable[j].cp = <<>> /\ AliasTable[i].name = AliasTable[j].name)
        => AliasTable[i].unit = AliasTable[j].unit
C18_EveryUnitHasItsName == \A i \in 1..Len(EnumNames) : Names[i].unit = EnumNames[i] /\ Names[i].name = EnumNames[i]
C18_UnknownNeverSelects == (outcome = "unknown") => slot = "Initial"
C18_KnownResolves == (outcome \notin {"pending", "unknown"}) => outcome = Names[idx].unit
C18_TableSize == Len(EnumNames) = 41 /\ Len(AliasTable) = 116
=============================================================================
