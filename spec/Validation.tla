----------------------------- MODULE Validation -----------------------------
(***************************************************************************)
(* Which constructions the library accepts (beyond the listed properties). *)
(*                                                                         *)
(* Every constructor with rules is an action over ABSTRACT argument        *)
(* classes; its rules are an ORDERED list - when several are violated the  *)
(* first one names the error - and a rejected construction yields no       *)
(* object.  Accepted constructions state which derived fields exist.       *)
(* The binding builds one concrete argument tuple per class combination    *)
(* (TLC enumerates all of them) and compares outcome, error type and the   *)
(* presence of derived fields.                                             *)
(*                                                                         *)
(*   BCPoint(BC, Mach, V)          BC > 0; exactly one of Mach and V       *)
(*   DragModel(bc, table, w, d)    table not empty; bc > 0; every item a   *)
(*                                 data point or a dict with Mach and CD;  *)
(*                                 sectional density and form factor exist *)
(*                                 iff weight and diameter are both > 0    *)
(*   Sight(plane, scale, h, v)     plane one of FFP SFP LWIR; SFP needs a  *)
(*                                 scale factor; click sizes are numbers   *)
(*                                 or angles, and positive                 *)
(*   MultiBC(points, table, w, d)  the table rules of DragModel; BC of the *)
(*                                 result = sectional density if weight    *)
(*                                 and diameter are both > 0, else 1       *)
(***************************************************************************)
EXTENDS Integers, Sequences, FiniteSets, TLC

Sign == {"neg", "zero", "pos"}
Given == {"absent", "present"}
TableKinds == {"empty", "points", "dicts", "mixed", "dict_without_CD", "item_not_a_point"}
Planes == {"FFP", "SFP", "LWIR", "other"}
Clicks == {"absent", "text", "nonpositive", "number", "angle"}

Cases ==
  [c : {"BCPoint"}, bc : Sign, mach : Given, v : Given] \cup
  [c : {"DragModel"}, bc : Sign, table : TableKinds, w : {"zero", "pos"}, d : {"zero", "pos"}] \cup
  [c : {"Sight"}, plane : Planes, scale : Given, h : Clicks, v : Clicks] \cup
  [c : {"MultiBC"}, table : TableKinds \ {"empty"}, w : {"zero", "pos"}, d : {"zero", "pos"}]

Rule(bad, err) == [bad |-> bad, err |-> err]

TableItemsBad(t) == t \in {"dict_without_CD", "item_not_a_point"}

\* the ordered rules of each constructor
Rules(a) ==
  CASE a.c = "BCPoint" ->
         << Rule(a.bc # "pos", "ValueError"),
            Rule(a.mach = "present" /\ a.v = "present", "ValueError"),
            Rule(a.mach = "absent" /\ a.v = "absent", "ValueError") >>
    [] a.c = "DragModel" ->
         << Rule(a.table = "empty", "ValueError"),
            Rule(a.bc # "pos", "ValueError"),
            Rule(TableItemsBad(a.table), "TypeError") >>
    [] a.c = "Sight" ->
         << Rule(a.plane = "other", "ValueError"),
            Rule(a.plane = "SFP" /\ a.scale = "absent", "ValueError"),
            Rule(a.h \in {"absent", "text"} \/ a.v \in {"absent", "text"}, "TypeError"),
            Rule(a.h = "nonpositive" \/ a.v = "nonpositive", "TypeError") >>
    [] a.c = "MultiBC" ->
         << Rule(TableItemsBad(a.table), "TypeError") >>

FirstViolated(rs) == IF \E i \in DOMAIN rs : rs[i].bad
                     THEN rs[CHOOSE i \in DOMAIN rs : rs[i].bad /\ \A j \in 1..(i - 1) : ~rs[j].bad].err
                     ELSE "ok"

\* derived facts of an accepted construction
Derived(a) ==
  CASE a.c = "BCPoint"   -> [mach_from |-> IF a.mach = "present" THEN "mach" ELSE "velocity"]
    [] a.c = "DragModel" -> [has_form_factor |-> a.w = "pos" /\ a.d = "pos"]
    [] a.c = "Sight"     -> [scale_default |-> a.scale = "absent"]
    [] a.c = "MultiBC"   -> [bc_is_sectional_density |-> a.w = "pos" /\ a.d = "pos"]

VARIABLES case, outcome, object
vars == <<case, outcome, object>>

Init == case \in Cases /\ outcome = "pending" /\ object = "none"

Construct ==
  /\ outcome = "pending"
  /\ outcome' = FirstViolated(Rules(case))
  /\ object' = IF outcome' = "ok" THEN "built" ELSE "none"
  /\ UNCHANGED case

Next == Construct
Spec == Init /\ [][Next]_vars

\* ---- properties ----------------------------------------------------------------------------------------------
V_RejectedBuildsNothing == outcome \notin {"pending", "ok"} => object = "none"
V_AcceptedIffNoRuleViolated == outcome # "pending" => ((outcome = "ok") <=> \A i \in DOMAIN Rules(case) : ~Rules(case)[i].bad)
\* value errors (a wrong VALUE of the right kind) are reported before type errors within one constructor
V_ErrorIsAViolatedRule == outcome \notin {"pending", "ok"} => \E i \in DOMAIN Rules(case) : Rules(case)[i].bad /\ Rules(case)[i].err = outcome
\* a ballistic coefficient that is not positive is never accepted anywhere
V_NoNonPositiveBC == (outcome = "ok" /\ case.c \in {"BCPoint", "DragModel"}) => case.bc = "pos"
=============================================================================
