------------------------------ MODULE VectorAlg ------------------------------
(***************************************************************************)
(* The 3-vector algebra the solver is written in (Vector), over small      *)
(* integers where every operation is exact in floats.  Not a listed        *)
(* property; it pins the operators C01's equations are built from.         *)
(***************************************************************************)
EXTENDS Integers, Sequences, TLC
CONSTANT Coords
Vecs == Coords \X Coords \X Coords
Add(a, b) == <<a[1] + b[1], a[2] + b[2], a[3] + b[3]>>
Sub(a, b) == <<a[1] - b[1], a[2] - b[2], a[3] - b[3]>>
Neg(a) == <<-a[1], -a[2], -a[3]>>
Scale(a, k) == <<k * a[1], k * a[2], k * a[3]>>
Dot(a, b) == a[1] * b[1] + a[2] * b[2] + a[3] * b[3]
Norm2(a) == Dot(a, a)
VARIABLES a, b, k
vars == <<a, b, k>>
Init == a \in Vecs /\ b \in Vecs /\ k \in Coords
Next == UNCHANGED vars
Spec == Init /\ [][Next]_vars
V_AddCommutes == Add(a, b) = Add(b, a)
V_SubIsAddNeg == Sub(a, b) = Add(a, Neg(b))
V_DotSymmetric == Dot(a, b) = Dot(b, a)
V_ScaleDistributes == Scale(Add(a, b), k) = Add(Scale(a, k), Scale(b, k))
V_NormOfScale == Norm2(Scale(a, k)) = k * k * Norm2(a)
=============================================================================
