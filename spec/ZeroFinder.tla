------------------------------ MODULE ZeroFinder ------------------------------
(***************************************************************************)
(* C02 - zeroing returns an elevation that hits the point of aim, or       *)
(* raises and leaves the stored zero alone.                                *)
(*                                                                         *)
(* Design model of the iteration protocol against an ARBITRARY environment *)
(* (each trial trajectory may fail with a range error, may or may not meet *)
(* the accuracy): phases, iteration counter, the candidate elevation and   *)
(* the weapon's stored zero as abstract tokens.  Convergence itself is an  *)
(* obligation on the code (checked on traces: a reachable target must end  *)
(* in Returned and the returned elevation must hit), not a theorem of this *)
(* model.                                                                  *)
(*   StoreRule = "after"  : the zero is stored only after a successful     *)
(*                          search (set_weapon_zero assigns the result)    *)
(*               "before" : (deviation) the stored zero is overwritten     *)
(*                          before / during the search - TLC refutes       *)
(*                          C02_FailureKeepsZero.                          *)
(***************************************************************************)
EXTENDS ZeroFinderOps, TLC
CONSTANTS MaxIter, StoreRule

VARIABLES phase, iter, errOK, cand, stored, stored0
vars == <<phase, iter, errOK, cand, stored, stored0>>

Init == /\ phase = "Idle" /\ iter = 0 /\ errOK = FALSE /\ cand = 0
        /\ stored = <<"old", 0>> /\ stored0 = stored      \* tokens are pairs <<kind, n>>

Begin == /\ phase = "Idle" /\ phase' = "Iterating"
         /\ stored' = IF StoreRule = "before" THEN <<"scratch", 0>> ELSE stored
         /\ UNCHANGED <<iter, errOK, cand, stored0>>

\* one trial trajectory with the current candidate: it may raise a range error, else it measures the error
Trial ==
  /\ phase = "Iterating"
  /\ \/ /\ phase' = "RangeErr" /\ UNCHANGED <<iter, errOK, cand>>
     \/ \E ok \in BOOLEAN :
          /\ errOK' = ok /\ iter' = iter + 1
          /\ phase' = NextPhase(ok, iter + 1, MaxIter)
          /\ cand' = IF ok THEN cand ELSE cand + 1          \* a new candidate elevation
  /\ UNCHANGED <<stored, stored0>>

\* set_weapon_zero assigns the returned elevation to the weapon
Store == /\ phase = "Returned" /\ stored # <<"zero", cand>>
         /\ stored' = <<"zero", cand>> /\ UNCHANGED <<phase, iter, errOK, cand, stored0>>

Next == Begin \/ Trial \/ Store
Spec == Init /\ [][Next]_vars

C02_ReturnedMeetsAccuracy == phase = "Returned" => errOK
C02_ErrorMeansNotMet == phase = "ZeroErr" => (~errOK /\ iter = MaxIter)
C02_IterationCap == iter <= MaxIter
C02_FailureKeepsZero == phase \in {"ZeroErr", "RangeErr"} => stored = stored0
C02_StoreOnlyAfterReturn == [][stored' # stored => (phase = "Returned" \/ (StoreRule = "before" /\ phase = "Idle"))]_vars
=============================================================================
