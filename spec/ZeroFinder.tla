------------------------------ MODULE ZeroFinder ------------------------------
(***************************************************************************)
(* C02 - zeroing returns an elevation that hits the point of aim, or       *)
(* raises and leaves the stored zero alone.                                *)
(*                                                                         *)
(* Design model of the iteration protocol against an ARBITRARY environment *)
(* (each trial trajectory may fail with a range error, may or may not meet *)
(* the accuracy): phases, iteration counter, the candidate elevation and   *)
(* the weapon's stored zero as abstract tokens.  Convergence itself is an  *)
(* obligation on the code (checked on traces: a reachable target must end  *)
(* in Returned and the returned elevation must hit), not a theorem of this *)
(* model.                                                                  *)
(*   StoreRule = "after"  : the zero is stored only after a successful     *)
(*                          search (set_weapon_zero assigns the result)    *)
(*               "before" : (deviation) the stored zero is overwritten     *)
(*                          before / during the search - TLC refutes       *)
(*                          C02_FailureKeepsZero.                          *)
(*   RestartRule = "once" : the search starts from the shot's CURRENT      *)
(*                          elevation (stored zero plus hold-over); when a *)
(*                          trial shot from an elevation that is not the   *)
(*                          sight line's is stopped short of the zero      *)
(*                          distance, the search starts over - once -      *)
(*                          along the sight line; only a trial along the   *)
(*                          sight line (or one after the restart) may end  *)
(*                          the search with the range error                *)
(*               "never"  : (deviation, the tree before c38d3cc) any trial *)
(*                          that falls short ends the search - TLC refutes *)
(*                          C02_RangeErrorOnlyAfterTheSightLineWasTried.   *)
(***************************************************************************)
EXTENDS ZeroFinderOps, TLC
CONSTANTS MaxIter, StoreRule, RestartRule

VARIABLES phase, iter, errOK, cand, stored, stored0,
          atSight,     \* the candidate elevation is the sight line's own (nothing stored, no hold-over; or after a restart)
          restarts     \* how often the search has started over
vars == <<phase, iter, errOK, cand, stored, stored0, atSight, restarts>>

Init == /\ phase = "Idle" /\ iter = 0 /\ errOK = FALSE /\ cand = 0
        /\ stored = <<"old", 0>> /\ stored0 = stored      \* tokens are pairs <<kind, n>>
        /\ atSight \in BOOLEAN /\ restarts = 0

Begin == /\ phase = "Idle" /\ phase' = "Iterating"
         /\ stored' = IF StoreRule = "before" THEN <<"scratch", 0>> ELSE stored
         /\ UNCHANGED <<iter, errOK, cand, stored0, atSight, restarts>>

\* one trial trajectory with the current candidate: it may raise a range error, else it measures the error
Trial ==
  /\ phase = "Iterating"
  /\ \/ \* the trial shot is stopped short of the zero distance
        IF RestartRule = "once" /\ ~atSight /\ restarts = 0
        THEN /\ cand' = cand + 1 /\ atSight' = TRUE /\ restarts' = 1          \* start over along the sight line (no trial counted)
             /\ UNCHANGED <<phase, iter, errOK>>
        ELSE /\ phase' = "RangeErr" /\ UNCHANGED <<iter, errOK, cand, atSight, restarts>>
     \/ \E ok \in BOOLEAN :
          /\ errOK' = ok /\ iter' = iter + 1
          /\ phase' = NextPhase(ok, iter + 1, MaxIter)
          /\ cand' = IF ok THEN cand ELSE cand + 1          \* a new candidate elevation
          /\ atSight' = (ok /\ atSight) /\ UNCHANGED restarts
  /\ UNCHANGED <<stored, stored0>>

\* set_weapon_zero assigns the returned elevation to the weapon
Store == /\ phase = "Returned" /\ stored # <<"zero", cand>>
         /\ stored' = <<"zero", cand>> /\ UNCHANGED <<phase, iter, errOK, cand, stored0, atSight, restarts>>

Next == Begin \/ Trial \/ Store
Spec == Init /\ [][Next]_vars

C02_ReturnedMeetsAccuracy == phase = "Returned" => errOK
C02_ErrorMeansNotMet == phase = "ZeroErr" => (~errOK /\ iter = MaxIter)
C02_IterationCap == iter <= MaxIter
C02_FailureKeepsZero == phase \in {"ZeroErr", "RangeErr"} => stored = stored0
C02_AtMostOneRestart == restarts <= 1
\* a search is given up for a trial shot that fell short only if the sight line's own elevation has been tried
C02_RangeErrorOnlyAfterTheSightLineWasTried == phase = "RangeErr" => (atSight \/ restarts = 1)
C02_StoreOnlyAfterReturn == [][stored' # stored => (phase = "Returned" \/ (StoreRule = "before" /\ phase = "Idle"))]_vars
=============================================================================
