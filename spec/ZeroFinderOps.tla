--------------------------- MODULE ZeroFinderOps ---------------------------
(* Protocol of TrajectoryCalc.zero_angle / Calculator.set_weapon_zero (C02), *)
(* shared by the design model and the trace monitor.                         *)
EXTENDS Integers, Sequences, FiniteSets
Phases == {"Idle", "Iterating", "Returned", "ZeroErr", "RangeErr"}
\* after an iteration that measured the error: what the finder must do next
\*   errOK          -> return the current elevation
\*   ~errOK, more iterations allowed -> adjust and iterate again
\*   ~errOK, cap reached             -> raise ZeroFindingError
NextPhase(errOK, iter, maxIter) == IF errOK THEN "Returned" ELSE IF iter >= maxIter THEN "ZeroErr" ELSE "Iterating"
=============================================================================
