#!/bin/bash
# tools/confirm_seed.sh <seed-id> <worktree> <property> ["needs" text]
# Confirms a seeded change produced by a sub-agent: demo fails with / passes without the change, the 108 tests pass with it,
# records patch + demo + meta under /verif/seeded/<id>/, then runs the property's quick check against the worktree.
set -u
ID=$1; WT=$2; PROP=$3; NEEDS=${4:-}
OUT=/verif/seeded/$ID
mkdir -p $OUT
cd $WT || exit 2
git diff > $OUT/patch.diff
cp demo_seeded.py $OUT/demo_seeded.py
PY="env PYTHONPATH=$WT /venv/bin/python"
$PY demo_seeded.py > $OUT/demo_with_change.txt 2>&1; RC_WITH=$?
# (git stash is shared between worktrees: reverse-apply the patch instead)
git apply -R $OUT/patch.diff
$PY demo_seeded.py > $OUT/demo_without_change.txt 2>&1; RC_WITHOUT=$?
git apply $OUT/patch.diff
TESTS=$(env -u PYBC_VERIF /venv/bin/python -m pytest -q -p no:cacheprovider --timeout=900 tests 2>&1 | tail -1)
APPLIES=$(git -C /repo apply --check $OUT/patch.diff 2>&1 && echo yes || echo no)
cd /verif
PYBC_REPO=$WT PBV_EVIDENCE_DIR=$WT/_ev PBV_REPLAY_DIR=$WT/_rp ./check $PROP --tier quick > $OUT/check_quick.txt 2>&1; RC_CHECK=$?
rm -rf $WT/_ev $WT/_rp
python3 - <<PY
import json
json.dump({"id": "$ID", "property": "$PROP", "needs_to_manifest": """$NEEDS""",
  "demo_exit_with_change": $RC_WITH, "demo_exit_without_change": $RC_WITHOUT, "tests_with_change": """$TESTS""",
  "patch_applies_to_repo_head": "$APPLIES".strip().endswith("yes"),
  "quick_check_exit_with_change": $RC_CHECK, "detected_by_quick": $RC_CHECK == 1,
  "what_was_run": ["demo with/without the change (git apply -R) in the scratch worktree $WT", "pytest tests (guard off) in the worktree",
                   "PYBC_REPO=$WT ./check $PROP --tier quick (checks run against the worktree copy, /repo untouched)"]},
  open("$OUT/meta.json","w"), indent=1)
PY
echo "$ID: demo with=$RC_WITH without=$RC_WITHOUT tests='$TESTS' check=$RC_CHECK"; tail -3 $OUT/check_quick.txt
