#!/venv/bin/python
"""Regenerates /verif/MANIFEST.json from the table below and validates it against the schema."""
import json
import os
import subprocess
import sys

HERE = os.path.dirname(os.path.dirname(os.path.abspath(__file__)))

TRACE = "TLA+ spec + TLC; code->spec trace validation of hook traces"
CHECKS = {
    # id: (technique, level text, level note, design_ref)
    "C20": ("TLA+ spec Lookup.tla model-checked by TLC (bisection procedures vs sequential-scan definition); "
            "every TLC-enumerated case replayed into the real helpers/HitResult accessors",
            "TLC proves on all trajectories of <=4 (thorough <=6) rows that the small-step bisection procedures end in "
            "the row a sequential scan / arg-min finds; every enumerated (trajectory, query, entry point) with the spec's "
            "required answer is replayed against the implementation, exhaustively within the bound.",
            "Bounded: sequences of <=4/6 rows over small integers; values exact in floats; negative time queries excluded.",
            "DESIGN.md §4 C20"),
    "C16": ("TLA+ spec DangerSpace.tla model-checked by TLC (row-by-row scans vs the statement's Admissible); every enumerated "
            "case replayed into HitResult.danger_space; real calls validated by Trace_DangerSpace (same operator)",
            "TLC checks that the two-sided scans always end in an admissible (begin,end) pair, are monotone in the height and "
            "error beyond the trajectory, for all drop sequences of <=5 (thorough <=6) rows; all enumerated cases (on- and "
            "off-grid ranges) are replayed into the real method and its answer must be in the spec's admissible set; "
            "danger_space calls on real extra-data trajectories are projected to per-row classifications and validated by the trace spec.",
            "Bounded sequences over small integer drops; real trajectories are sampled (seeded); boundary classification uses a 1e-9 band.",
            "DESIGN.md §4 C16"),
}

NOT_APPLICABLE = {
    "C01": "Convergence of a numerical ODE integrator to a real-valued reference solution: TLC/Apalache have no reals and no "
           "notion of limit; a TLA+ model cannot decide it (the discrete skeleton of the integrator is covered under C03/C04/C12/C18).",
    "C05": "Every clause is an equality between a float column and a transcendental expression (atan, tan, cos, pow 1.83, cube root); "
           "there is no state, history or case space for an explicit-state model to explore, and an integer model cannot evaluate them.",
    "C08": "ISA/CIPM fidelity to 1e-4 and monotonicity of real-valued transcendental functions over continuous ranges; not decidable "
           "by a finite-state TLA+ model. The discrete residue (humidity range check, Vacuum) is modelled but C08 is not claimed.",
}
PENDING = {}


def main():
    props = [json.loads(l)["id"] for l in open(os.path.join(HERE, "properties.jsonl"))]
    checks = []
    for pid in props:
        if pid not in CHECKS:
            continue
        tech, text, note, ref = CHECKS[pid]
        checks.append({
            "property_id": pid,
            "quick_cmd": f"./check {pid} --tier quick",
            "thorough_cmd": f"./check {pid} --tier thorough",
            "evidence_file": f"/verif/evidence/{pid}.json",
            "replay_cmd_template": f"./check {pid} --replay {{path}}",
            "engine": "tlc+pbv",
            "level_claimed": {"category": "model_checking", "text": text, "design_ref": ref},
            "level_note": note,
            "technique": tech,
        })
    na = []
    for pid in props:
        if pid in CHECKS:
            continue
        reason = NOT_APPLICABLE.get(pid) or PENDING.get(pid) or \
            "check not built yet in this revision of /verif (planned, see DESIGN.md §4); not claimed until it runs"
        na.append({"property_id": pid, "reason": reason})
    hooks_commits = []
    hc = os.path.join(HERE, "hooks_commits.txt")
    if os.path.exists(hc):
        hooks_commits = [l.split()[0] for l in open(hc) if l.strip()]
    man = {
        "version": 1,
        "setup_cmd": "./setup.sh",
        "hooks": {
            "guard": "PYBC_VERIF",
            "enable": "environment variable PYBC_VERIF=1 at import time of py_ballisticcalc (pure Python: nothing to build); "
                      "the harness then installs a sink with py_ballisticcalc.trajectory_calc._trajectory_calc._verif_install(sink)",
            "baseline_off_cmd": "cd /repo && env -u PYBC_VERIF /venv/bin/python -m pytest -ra -q -p no:cacheprovider --timeout=900 "
                                "--continue-on-collection-errors",
            "source_commits": hooks_commits,
            "add_only": True,
        },
        "engines": [
            {"name": "tlc+pbv", "path": "/verif/check", "serves_properties": [c["property_id"] for c in checks],
             "kind_free_text": "TLA+ specifications under /verif/spec checked by TLC 1.8 (design models MC/Spec, generators Gen_*, "
                               "trace specs Trace_*), bound to /repo by the Python harness /verif/harness/pbv (spec->code replay "
                               "of TLC-generated behaviours, code->spec validation of hook traces)"}
        ],
        "checks": checks,
        "not_applicable": na,
        "notes": "All checks: ./check <id> --tier quick|thorough [--seed N]; exit 0 held / 1 violation / 2 machinery failure. "
                 "known_findings.json lists recorded and fixed defects. PYBC_REPO=<dir> points the checks at another tree (self-tests).",
    }
    out = os.path.join(HERE, "MANIFEST.json")
    json.dump(man, open(out, "w"), indent=1)
    open(out, "a").write("\n")
    import jsonschema
    jsonschema.validate(man, json.load(open("/root/.vp/MANIFEST.schema.json")))
    print("MANIFEST.json written:", len(checks), "checks,", len(na), "not claimed")


if __name__ == "__main__":
    main()
