#!/venv/bin/python
"""Regenerates /verif/MANIFEST.json from the table below and validates it against the schema."""
import json
import os
import subprocess
import sys

HERE = os.path.dirname(os.path.dirname(os.path.abspath(__file__)))

TRACE = "TLA+ spec + TLC; code->spec trace validation of hook traces"
CHECKS = {
    # id: (technique, level text, level note, design_ref)
    "C20": ("TLA+ spec Lookup.tla model-checked by TLC (bisection procedures vs sequential-scan definition); "
            "every TLC-enumerated case replayed into the real helpers/HitResult accessors",
            "TLC proves on all trajectories of <=4 (thorough <=6) rows that the small-step bisection procedures end in "
            "the row a sequential scan / arg-min finds; every enumerated (trajectory, query, entry point) with the spec's "
            "required answer is replayed against the implementation, exhaustively within the bound.",
            "Bounded: sequences of <=4/6 rows over small integers; values exact in floats; negative time queries excluded.",
            "DESIGN.md §4 C20"),
    "C16": ("TLA+ spec DangerSpace.tla model-checked by TLC (row-by-row scans vs the statement's Admissible); every enumerated "
            "case replayed into HitResult.danger_space; real calls validated by Trace_DangerSpace (same operator)",
            "TLC checks that the two-sided scans always end in an admissible (begin,end) pair, are monotone in the height and "
            "error beyond the trajectory, for all drop sequences of <=5 (thorough <=6) rows; all enumerated cases (on- and "
            "off-grid ranges) are replayed into the real method and its answer must be in the spec's admissible set; "
            "danger_space calls on real extra-data trajectories are projected to per-row classifications and validated by the trace spec.",
            "Bounded sequences over small integer drops; real trajectories are sampled (seeded); boundary classification uses a 1e-9 band.",
            "DESIGN.md §4 C16"),
    "C06": ("TLA+ spec UnitAlgebra.tla (SI definition table as exact factored rationals; conversion-chain state machine) "
            "model-checked by TLC; all 287 pairs / 2267 triples exported by TLC and replayed into the real unit classes",
            "TLC checks path independence and round-trip identity of the exact conversion maps over all chains of <=3 (thorough 4) "
            "conversions and the sanity of the definition table; the exported exact map of every ordered pair and triple is "
            "compared with the implementation on a magnitude set through 5 conversion spellings (1e-6 vs SI, 16 ulps round trip / composition).",
            "Unit pairs/triples exhaustive, magnitudes sampled (seeded); float comparisons are done by the harness with the spec's exact "
            "rationals (pi as 50-digit rational); angles within one turn, tangent-based units |angle|<=0.5 rad.",
            "DESIGN.md §4 C06"),
    "C17": ("TLA+ spec Powder.tla (Ammo state machine with exact rationals) model-checked by TLC; every behaviour of 3 operations "
            "emitted by TLC (Gen_Powder) is replayed on a real Ammo, launch velocity through Calculator.fire",
            "TLC checks disabled=stated, anchored, linear-per-15C, calibration reproduced and reject-leaves-state over all operation "
            "sequences; all generated behaviours are replayed on the implementation with temperatures and velocities in rotating units; "
            "the velocity the solver launches with is read from row 0 of a real fire for air / explicit powder temperature.",
            "Bounded value sets (3 velocities, 4 temperatures, 3 modifiers; thorough adds simulated depth-6 behaviours over larger sets).",
            "DESIGN.md §4 C17"),
    "C19": ("TLA+ spec Sight.tla (construct/adjust state machine, exact rational click counts) model-checked by TLC; every "
            "(sight, request) emitted by TLC replayed on the real Sight through both entry points and several units",
            "TLC checks the constructor outcome table, sign, linearity, axis independence and FFP invariance for all sights/requests of "
            "the bounded model; all cases are replayed into Sight.get_adjustment / get_trajectory_adjustment and compared with the "
            "spec's exact rational (1e-9).",
            "Bounded grids of click sizes, distances, magnifications and corrections; unit variants from the UnitAlgebra table (linear angular units only).",
            "DESIGN.md §4 C19"),
    "C03": ("TLA+ specs IntegratorOps/Integrator (design, TLC exhaustive) + Gen_Integrator behaviours replayed into the real "
            "_TrajectoryDataFilter + Trace_Integrator validating hook traces of real fire() calls",
            "TLC checks one-row-per-multiple, muzzle row, record-when-reached and time-gap for every advance sequence (incl. tail-wind "
            "advances > min step) and refutes the pinned loop rule; TLC-simulated controller behaviours drive the real recorder object "
            "exactly; recorded iterations of real shots are re-decided by the same operators in the trace monitor.",
            "Design model bounded (ranges <= 12 units, advances <= 4, <= 6 wind ends); real shots are seeded samples projected with a 1e-10 band on threshold predicates; hooks H1 must be present (PYBC_VERIF=1).", "DESIGN.md §4 C03"),
    "C04": ("TLA+ spec Integrator (limit verdict, liveness) model-checked by TLC + Trace_Integrator validating hook traces of real "
            "limit-hitting shots, paired with relaxed-limit runs",
            "TLC checks verdict = first violated limit in precedence order, stop at first violation, no error without violation, and "
            "termination under the gravity assumption, for every subset of limits violated per step; real vertical/slow/zero-velocity/"
            "limit shots are run under a watchdog and validated per iteration (reason truthful, precedence, earlier rows within limits, "
            "last distance, earlier rows bit-identical to the relaxed-limit run).",
            "Design model bounded (ranges <= 12 units, advances <= 4, <= 6 wind ends); real shots are seeded samples projected with a 1e-10 band on threshold predicates; hooks H1 must be present (PYBC_VERIF=1).", "DESIGN.md §4 C04"),
    "C11": ("TLA+ spec Integrator (twin recorders over one physics) model-checked by TLC + Trace_Integrator on paired real requests",
            "TLC checks that every recorded row lies on the polyline of iteration points that no recorder influences, for two requests "
            "observing the same shot; real shots are fired with 8 request variants each: iteration pre-states bit-identical, common rows "
            "equal to 64 ulp, extra = plain + event-flagged rows (also with the record step aimed at each event and with requests shorter "
            "than their step); the monitor checks the row-emission rule per iteration; the exact lattice world (Lattice.tla) is replayed "
            "row by row (distance, time, height, derived columns) and its TLC-enumerated results are checked pairwise (plain subset of extra).",
            "Design model bounded (ranges <= 12 units, advances <= 4, <= 6 wind ends); real shots are seeded samples projected with a 1e-10 band on threshold predicates; hooks H1 must be present (PYBC_VERIF=1).", "DESIGN.md §4 C11"),
    "C12": ("TLA+ spec Integrator (wind sock by position) model-checked by TLC + behaviours replayed into the real _WindSock + "
            "Trace_Integrator per-iteration wind check and paired metamorphic runs",
            "TLC checks segment = number of boundaries reached for wind-end lists with duplicates/zeros/ends beyond range and refutes the "
            "pinned one-segment-per-iteration sock; Apalache discharges the same as an inductive invariant for unbounded integer ends and "
            "positions (SockInd.tla) and finds the deviation's counterexample; TLC behaviours drive the real sock with scrambled input order; in real shots the wind "
            "vector used by every iteration must be the documented vector of the segment the projectile is in; order, causality, mirror, "
            "zero-wind and sign clauses on paired runs.",
            "Design model bounded (ranges <= 12 units, advances <= 4, <= 6 wind ends); real shots are seeded samples projected with a 1e-10 band on threshold predicates; hooks H1 must be present (PYBC_VERIF=1).", "DESIGN.md §4 C12"),
    "C15": ("TLA+ spec Integrator (event flags vs history ghosts) model-checked by TLC + behaviours replayed into the real "
            "_TrajectoryDataFilter + Trace_Integrator on real extra-data shots",
            "TLC checks each crossing flagged exactly once in the iteration that first observes it, for every side/sonic sequence and "
            "muzzle/barrel configuration; TLC behaviours drive the real filter (flags and seen_zero per call); real extra-data shots are "
            "validated per iteration (missing/spurious/duplicate flags, within-one-step bounds, row order, zeros() accessor).",
            "Design model bounded (ranges <= 12 units, advances <= 4, <= 6 wind ends); real shots are seeded samples projected with a 1e-10 band on threshold predicates; hooks H1 must be present (PYBC_VERIF=1).", "DESIGN.md §4 C15"),
    "C13": ("TLA+ spec Quantity.tla (display-unit state machine, hash rules) model-checked by TLC; TLC-simulated behaviours "
            "replayed on real quantity objects of all 7 dimensions",
            "TLC checks display-in-dimension, equal-hash-equal, hash stability and no-foreign-value over all operation sequences "
            "(depth 3/4) and refutes the pinned hash rule; behaviours of 8 operations (convert, <<, Unit(q), >>, get_in, comparisons, "
            "hash, str/repr/float, pass-as-argument) are replayed: raw_value bit-identical and display unit as specified after every "
            "operation, values independent of history, comparisons/hash by magnitude, foreign reads raise.",
            "Behaviours sampled by TLC simulation (every candidate successor emitted); 3 objects, 2 dimensions per behaviour rotating "
            "over all 7; cross-dimension comparisons not demanded.", "DESIGN.md §4 C13"),
    "C18": ("TLA+ specs Config.tla (frozen settings / global step) and UnitNames.tla (golden name table) model-checked by TLC; "
            "histories and every name case replayed on the real library; Trace_Integrator validates Use() shots with the constants the spec assigns",
            "TLC checks settings frozen at creation, computations governed by the calculator's own step (the 'live' deviation is "
            "refuted), non-positive global steps rejected; generated histories are replayed comparing every calculator's settings and "
            "the global after each operation, each Use fires a recorded shot checked for the step bound; gravity, limits, zero accuracy "
            "and iteration cap are checked on real computations; all 41 names + 116 aliases + unknown strings x cases x 6 entry points "
            "are replayed against the golden table.",
            "Histories sampled by TLC simulation; golden alias table transcribed once from the pinned tree's documented table; slot "
            "names are accepted unit strings; wrong-dimension names not exercised.", "DESIGN.md §4 C18"),
    "C09": ("TLA+ spec DragLookup.tla (small-step table search) model-checked by TLC; every table-shape x query case replayed into the "
            "real curve/lookup and drag_by_mach; Trace_DragLookup validates queries on shipped/custom tables; golden table identity",
            "TLC checks on every table shape (3..6/7 nodes, gaps 1..3) and quarter-grid query that the chosen curve piece passes "
            "through both neighbours of the query (last three points beyond the table) and refutes the inverted nearest-node rule; all "
            "cases are replayed with the piece identified by exact rational evaluation; shipped and custom tables are queried at and "
            "1 ulp around every node and midpoint (node values, positivity, 5% band, retardation constant) and validated by the trace spec.",
            "Integer tables bounded; real-table queries enumerated per node/midpoint; published tables cannot be fetched offline - "
            "identity = golden digests transcribed from the pinned tree; constant compared to 1e-5.", "DESIGN.md §4 C09"),
    "C14": ("TLA+ spec MultiBC.tla (heap of data-point objects, exact rational interpolation law) model-checked by TLC; every build "
            "history replayed on real objects with heap snapshots",
            "TLC checks law realised, no input mutation, shared model unaffected, idempotence and order-insensitivity over all build "
            "histories and refutes the pinned in-place rule; all generated histories are replayed (tables as dicts / caller-owned data "
            "points / another model's table by reference; points by Mach or velocity in several units; with/without weight+diameter) "
            "comparing every model's multipliers with the spec's exact rationals after every build and snapshotting every input object.",
            "Integer Mach grid of 5 nodes, 7 point lists, 3 (thorough 4) builds; law compared to 1e-9 (1e-5 for velocity-given points in "
            "non-SI units); shipped tables exercised for the heap clauses only.", "DESIGN.md §4 C14"),
    "C07": ("TLA+ spec Prefs.tla (15 slots, Coerce for bare/explicit/omitted arguments, API parameter table) model-checked by TLC; "
            "TLC-generated preference histories replayed on the real PreferredUnits, bare-vs-explicit and explicit-corpus checks in every final state",
            "TLC checks bare = explicit-in-the-current-unit for every parameter and magnitude (zero included) and explicit arguments "
            "independent of the slots over all histories; generated histories (assign by attribute/name/Unit, defaults, presets) are "
            "replayed comparing all 15 slots after every operation; in each final state all 39 API parameters are built from a bare "
            "number and from the explicit quantity (bit-identical results demanded) and a 14-result explicit-unit corpus must fingerprint "
            "as under default preferences.",
            "Histories sampled by TLC simulation; 4 candidate units per dimension; formatted output excluded; zero skipped where meaningless.",
            "DESIGN.md §4 C07"),
    "C10": ("TLA+ specs Session.tla (operation histories over a shared object graph) and Threads.tla (all interleavings of per-thread "
            "blocks) model-checked by TLC; histories replayed on real objects with fresh-object oracle and deep snapshots; TLC schedules "
            "drive real threads at the solver hook",
            "TLC checks history independence, only-a-successful-zero-writes-the-zero and failed operations change nothing, and refutes "
            "a solver that leaks per-call state; generated histories (fire plain/extra/timed, raising fire and zero, danger space, "
            "multi-BC build; shots sharing weapon/ammunition by reference) are replayed: every result must equal the same operation on "
            "freshly built objects with a fresh calculator, deep snapshots of all arguments, globals and shipped tables must not change; "
            "in-place edits of the ammunition by the caller (table, powder configuration, bullet dimensions, muzzle velocity) must be followed; "
            "focused alphabets (one calculator, one shot) are enumerated exhaustively; every enumerated interleaving of 2 threads is executed "
            "with a deterministic scheduler at hook H1 (calculators with different and with equal configuration), plus free-running threads.",
            "Histories sampled by TLC simulation (depth 6) plus exhaustive focused alphabets (length 3, thorough 4); schedules exhaustive for 2 threads x 3/4 blocks; preemption inside one loop "
            "iteration only by free-running runs; hooks H1/H2 required.", "DESIGN.md §4 C10"),
    "C02": ("TLA+ spec ZeroFinder.tla (iteration protocol vs arbitrary environment) model-checked by TLC; Trace_ZeroFinder validates "
            "hook traces (H2) and API-boundary observations of real set_weapon_zero calls",
            "TLC checks returned => accuracy met, error => not met at the cap, iteration cap, failure keeps the stored zero, store only "
            "after return, and refutes 'store before search'; real zeroings (all look angles to +-59 deg, 0-2 winds, previously stored "
            "zeros, unreachable distances) are recorded per iteration and validated: protocol conformance, reachable => returned, returned "
            "=> the trajectory then fired is within the statement's bound of the sight line at the aim point, failed => stored zero "
            "bit-identical.",
            "Shots sampled (seeded); reachability and the miss bound are float predicates of the projection (bound per foot of down-range "
            "distance over the steps between aim point and sample point); two open known findings of the zero finder (sampling discontinuity, high-arc slow convergence; known_findings.json).",
            "DESIGN.md §4 C02"),
}

NOT_APPLICABLE = {
    "C01": "Convergence of a numerical ODE integrator to a real-valued reference solution: TLC/Apalache have no reals and no "
           "notion of limit; a TLA+ model cannot decide it (the discrete skeleton of the integrator is covered under C03/C04/C12/C18).",
    "C05": "Every clause is an equality between a float column and a transcendental expression (atan, tan, cos, pow 1.83, cube root); "
           "there is no state, history or case space for an explicit-state model to explore, and an integer model cannot evaluate them.",
    "C08": "ISA/CIPM fidelity to 1e-4 and monotonicity of real-valued transcendental functions over continuous ranges; not decidable "
           "by a finite-state TLA+ model. The discrete residue (humidity range check, Vacuum) is modelled but C08 is not claimed.",
}
PENDING = {}


def main():
    props = [json.loads(l)["id"] for l in open(os.path.join(HERE, "properties.jsonl"))]
    checks = []
    for pid in props:
        if pid not in CHECKS:
            continue
        tech, text, note, ref = CHECKS[pid]
        checks.append({
            "property_id": pid,
            "quick_cmd": f"./check {pid} --tier quick",
            "thorough_cmd": f"./check {pid} --tier thorough",
            "evidence_file": f"/verif/evidence/{pid}.json",
            "replay_cmd_template": f"./check {pid} --replay {{path}}",
            "engine": "tlc+pbv",
            "level_claimed": {"category": "model_checking", "text": text, "design_ref": ref},
            "level_note": note + " The scenario classes and clauses in force were extended repeatedly after independently written "
                          "seeded changes were missed (DESIGN.md 9.3, 10): they are listed by the check's require_strata "
                          "(a run that misses one fails as vacuous) and in its evidence file.",
            "technique": tech,
        })
    na = []
    for pid in props:
        if pid in CHECKS:
            continue
        reason = NOT_APPLICABLE.get(pid) or PENDING.get(pid) or \
            "check not built yet in this revision of /verif (planned, see DESIGN.md §4); not claimed until it runs"
        na.append({"property_id": pid, "reason": reason})
    hooks_commits = []
    hc = os.path.join(HERE, "hooks_commits.txt")
    if os.path.exists(hc):
        hooks_commits = [l.split()[0] for l in open(hc) if l.strip()]
    man = {
        "version": 1,
        "setup_cmd": "./setup.sh",
        "hooks": {
            "guard": "PYBC_VERIF",
            "enable": "environment variable PYBC_VERIF=1 at import time of py_ballisticcalc (pure Python: nothing to build); "
                      "the harness then installs a sink with py_ballisticcalc.trajectory_calc._trajectory_calc._verif_install(sink)",
            "baseline_off_cmd": "cd /repo && env -u PYBC_VERIF /venv/bin/python -m pytest -ra -q -p no:cacheprovider --timeout=900 "
                                "--continue-on-collection-errors",
            "source_commits": hooks_commits,
            "add_only": True,
        },
        "engines": [
            {"name": "tlc+pbv", "path": "/verif/check", "serves_properties": [c["property_id"] for c in checks],
             "kind_free_text": "TLA+ specifications under /verif/spec checked by TLC 1.8 (design models MC/Spec, generators Gen_*, "
                               "trace specs Trace_*), bound to /repo by the Python harness /verif/harness/pbv (spec->code replay "
                               "of TLC-generated behaviours, code->spec validation of hook traces)"}
        ],
        "checks": checks,
        "not_applicable": na,
        "notes": "All checks: ./check <id> --tier quick|thorough [--seed N]; exit 0 held / 1 violation / 2 machinery failure. "
                 "known_findings.json lists recorded and fixed defects. PYBC_REPO=<dir> points the checks at another tree (self-tests). "
                 "./check EXTRAS runs the specification modules beyond the listed properties (Atmo, Results, ConfigLoad, VectorAlg, Output, "
                 "Validation, Derived, Service; evidence_beyond_listed/). ./check selftest runs the hand-written mutants (selftest/mutants.json); "
                 "tools/run_seeded.sh [tier] [ids] runs the checks against the independently written seeded changes under seeded/ (DESIGN.md 9.3, 10).",
    }
    out = os.path.join(HERE, "MANIFEST.json")
    json.dump(man, open(out, "w"), indent=1)
    open(out, "a").write("\n")
    import jsonschema
    jsonschema.validate(man, json.load(open("/root/.vp/MANIFEST.schema.json")))
    print("MANIFEST.json written:", len(checks), "checks,", len(na), "not claimed")


if __name__ == "__main__":
    main()
