#!/bin/bash
# tools/run_seeded.sh [tier] <seed-id>...   (default: all) - applies seeded/<id>/patch.diff to a scratch COPY of /repo
# (never to /repo), runs the quick check of the property it breaks against the copy, removes the copy, and records whether
# the violation was detected in seeded/<id>/meta.json.
cd /verif
TIER=quick
if [ "${1:-}" = "quick" ] || [ "${1:-}" = "thorough" ]; then TIER=$1; shift; fi
IDS=${@:-$(ls seeded)}
for ID in $IDS; do
 (
  D=$(mktemp -d /var/tmp/pbv_seed_XXXXXX)
  rsync -a --exclude .git --exclude __pycache__ --exclude docs --exclude examples --exclude '*.ipynb' /repo/ $D/
  PROP=$(python3 -c "import json;print(json.load(open('seeded/$ID/meta.json'))['property'])")
  if (cd $D && patch -p1 -s --no-backup-if-mismatch < /verif/seeded/$ID/patch.diff); then
    PYBC_REPO=$D PBV_EVIDENCE_DIR=$D/_ev PBV_REPLAY_DIR=$D/_rp ./check $PROP --tier $TIER > seeded/$ID/check_$TIER.txt 2>&1; RC=$?
  else RC=97; fi
  rm -rf $D
  python3 - <<PY
import json
p='seeded/$ID/meta.json'; m=json.load(open(p))
m['${TIER}_check_exit_with_change']=$RC; m['detected_by_$TIER']=($RC==1)
json.dump(m,open(p,'w'),indent=1)
PY
  echo "$ID ($PROP, $TIER): exit=$RC $( [ $RC = 1 ] && echo DETECTED || echo MISSED )"
 ) &
 while [ $(jobs -r | wc -l) -ge ${PBV_SEED_JOBS:-4} ]; do sleep 1; done
done
wait
