#!/bin/bash
# tools/seed_sweep.sh <tier> <seeds...> : runs every claimed check at several seeds (false-alarm hunt); prints one line per run
TIER=$1; shift
cd "$(dirname "$0")/.."
export PBV_EVIDENCE_DIR=$(pwd)/.scratch/sweep_ev PBV_REPLAY_DIR=$(pwd)/sweep_replays
mkdir -p $PBV_EVIDENCE_DIR
PROPS=$(python3 -c "import json;print(' '.join(c['property_id'] for c in json.load(open('MANIFEST.json'))['checks']))")
for S in "$@"; do
  for P in $PROPS; do
    ( OUT=$(./check $P --tier $TIER --seed $S 2>&1); RC=$?; echo "seed=$S $P rc=$RC $(echo "$OUT" | tail -1 | cut -c1-160)"; if [ $RC != 0 ]; then echo "$OUT" | tail -15; fi ) &
    while [ $(jobs -r | wc -l) -ge ${SWEEP_JOBS:-3} ]; do sleep 1; done
  done
done
wait
