#!/usr/bin/env python3
"""tools/seed_table.py - regenerates the table of DESIGN.md §10 from seeded/*/meta.json and seeded/*/check_quick.txt."""
import json, re, sys
from pathlib import Path

V = Path(__file__).resolve().parent.parent
rows = []
missed = 0
for d in sorted((V / "seeded").iterdir()):
    m = json.loads((d / "meta.json").read_text())
    txt = (d / "check_quick.txt").read_text() if (d / "check_quick.txt").exists() else ""
    mm = re.search(r"violation counts: (\{.*\})", txt)
    clauses = list(json.loads(mm.group(1))) if mm else []
    short = ", ".join("`" + c.split(".", 1)[1] + "`" for c in clauses[:4])
    det = m.get("detected_by_quick")
    note = " (after strengthening, §9.3)" if m.get("missed_before_strengthening") else ""
    missed += 1 if m.get("missed_before_strengthening") else 0
    caught = f"{m['property']} {short}{note}" if det else "**not detected by quick**"
    rows.append(f"| {m['id']} | {m['needs_to_manifest']} | {caught} |")
table = "| seeded change | needs to manifest | caught by (quick), clauses |\n|---|---|---|\n" + "\n".join(rows) + "\n"
p = V / "DESIGN.md"
s = p.read_text()
a = s.index("| seeded change | needs to manifest |")
b = s.index("\n\n", a)
s = s[:a] + table.rstrip("\n") + s[b:]
p.write_text(s)
print(len(rows), "seeded changes,", missed, "initially missed,", sum(1 for r in rows if "not detected" in r), "undetected")
